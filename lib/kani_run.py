"""Run Kani harnesses that live in /verif/kani/<crate>/ (mounted into the real crates under cfg(kani))."""
import os
import re
import signal
import subprocess
import time

REPO = os.environ.get('VERIF_REPO', '/repo')
CACHE = os.environ.get('VERIF_CACHE', '/verif/.cache')


def _env():
    e = dict(os.environ)
    e['RUSTC_WRAPPER'] = ''
    e['CARGO_NET_OFFLINE'] = 'true'
    e['CARGO_TARGET_DIR'] = os.path.join(CACHE, 'kani-target')
    e.pop('RUSTFLAGS', None)
    return e


def kill_orphans(pgid):
    try:
        os.killpg(pgid, signal.SIGKILL)
    except Exception:
        pass


THREAD_RE = re.compile(r'(?m)^Thread (\d+): ?')


def _parse_block(part, r):
    ms = re.search(r'VERIFICATION:- (SUCCESSFUL|FAILED)', part)
    r['result'] = ms.group(1) if ms else 'UNKNOWN'
    mc = re.search(r'\*\* (\d+) of (\d+) failed', part)
    if mc:
        r['checks_failed'], r['checks_total'] = int(mc.group(1)), int(mc.group(2))
    mcov = re.search(r'\*\* (\d+) of (\d+) cover properties satisfied', part)
    if mcov:
        r['covers_sat'], r['covers_total'] = int(mcov.group(1)), int(mcov.group(2))
    mt = re.search(r'Verification Time: ([0-9.]+)s', part)
    if mt:
        r['time_s'] = float(mt.group(1))
    fails = []
    for fm in re.finditer(r'Failed Checks: (.*)\n\s*File: "([^"]+)", line (\d+), in (\S+)', part):
        fails.append({'description': fm.group(1).strip(), 'file': fm.group(2), 'line': int(fm.group(3)), 'function': fm.group(4)})
    if not fails:
        for fm in re.finditer(r'Failed Checks: (.*)', part):
            fails.append({'description': fm.group(1).strip()})
    r['failed_checks'] = fails
    r['unwind_failure'] = any('unwinding assertion' in f['description'] for f in fails)
    r['stubs'] = re.findall(r'- Stub: (\S+)', part)
    if 'CBMC timed out' in part:
        r['result'] = 'TIMEOUT'
    elif 'CBMC failed' in part and not fails and not mc:
        r['result'] = 'TOOL-ERROR'
    r['raw'] = part[-5000:]


def parse(output, wanted):
    """Kani terse output (with -j: blocks prefixed 'Thread N:') -> {harness short name: {...}}"""
    res = {}
    cur = {}  # thread -> harness name
    pieces = THREAD_RE.split(output)
    # pieces = [pre, tid, text, tid, text, ...]
    if len(pieces) >= 3:
        for k in range(1, len(pieces) - 1, 2):
            tid, text = pieces[k], pieces[k + 1]
            m = re.match(r'Checking harness (\S+?)\.\.\.', text)
            if m:
                cur[tid] = m.group(1)
                continue
            full = cur.get(tid)
            if full is None:
                continue
            r = {'full_name': full}
            _parse_block(text.split('Manual Harness Summary')[0], r)
            res[full.split('::')[-1]] = r
    else:
        for part in re.split(r'(?m)^(?=Checking harness )', output):
            m = re.match(r'Checking harness (\S+?)\.\.\.', part)
            if not m:
                continue
            r = {'full_name': m.group(1)}
            _parse_block(part.split('Manual Harness Summary')[0], r)
            res[m.group(1).split('::')[-1]] = r
    return res


def run(crate, harnesses, unwind=None, jobs=8, harness_timeout=300, overall_timeout=3600, extra=None, solver=None):
    """crate: directory name under /repo/crates. Returns (results, meta)."""
    cwd = os.path.join(REPO, 'crates', crate)
    cmd = ['cargo', 'kani', '-Z', 'function-contracts', '-Z', 'stubbing', '-Z', 'unstable-options',
           '--output-format=terse', '-j', str(jobs), '--harness-timeout', '%ds' % harness_timeout, '--exact']
    if unwind:
        cmd += ['--default-unwind', str(unwind)]
    if solver:
        cmd += ['--solver', solver]
    if extra:
        cmd += extra
    for h in harnesses:
        cmd += ['--harness', h]
    t0 = time.time()
    p = subprocess.Popen(cmd, cwd=cwd, env=_env(), stdout=subprocess.PIPE, stderr=subprocess.STDOUT, text=True,
                         start_new_session=True)
    try:
        out, _ = p.communicate(timeout=overall_timeout)
        timed_out = False
    except subprocess.TimeoutExpired:
        kill_orphans(p.pid)
        out, _ = p.communicate()
        timed_out = True
    kill_orphans(p.pid)
    wall = time.time() - t0
    meta = {'cmd': ' '.join(cmd), 'cwd': cwd, 'wall_s': wall, 'rc': p.returncode, 'timed_out': timed_out}
    if 'error: could not compile' in out or re.search(r'(?m)^error(\[E\d+\])?:', out) and 'Checking harness' not in out:
        meta['compile_error'] = True
    mv = re.search(r'Complete - (\d+) successfully verified harnesses, (\d+) failures, (\d+) total', out)
    if mv:
        meta['summary'] = {'ok': int(mv.group(1)), 'failed': int(mv.group(2)), 'total': int(mv.group(3))}
    meta['output_tail'] = out[-6000:]
    meta['output'] = out
    return parse(out, harnesses), meta


def replay(crate, harness_full, harness_file, unwind=4, timeout=900):
    """Ask Kani for the counterexample of a failed harness as a concrete-playback unit test, put it into the replay slot
    (<harness_file minus .rs>.playback.rs, included by the harness module) and run it NATIVELY against the working tree.
    Returns dict(reproduced: bool, test_src, values_comment, native_tail, note)."""
    res = {'reproduced': False, 'test_src': '', 'native_tail': '', 'note': ''}
    slot = harness_file[:-3] + '.playback.rs'
    if not os.path.exists(slot):
        res['note'] = 'no replay slot for this harness module'
        return res
    cwd = os.path.join(REPO, 'crates', crate)
    cmd = ['cargo', 'kani', '-Z', 'function-contracts', '-Z', 'stubbing', '-Z', 'concrete-playback', '--concrete-playback=print',
           '--default-unwind', str(unwind), '--exact', '--harness', harness_full]
    try:
        p = subprocess.run(cmd, cwd=cwd, env=_env(), capture_output=True, text=True, timeout=timeout)
    except subprocess.TimeoutExpired:
        res['note'] = 'kani --concrete-playback=print timed out'
        return res
    out = p.stdout + p.stderr
    m = re.search(r'Concrete playback unit test for `[^`]+`:\s*```\n(.*?)```', out, re.S)
    if not m:
        res['note'] = 'Kani produced no concrete playback test (e.g. failure is an unwinding/unsupported-construct check)'
        return res
    test_src = m.group(1)
    res['test_src'] = test_src
    header = '// (generated at replay time; empty otherwise) concrete-playback tests for the harnesses of this module'
    e = _env()
    e['CARGO_TARGET_DIR'] = os.path.join(CACHE, 'kani-playback-target')
    try:
        with open(slot, 'w') as f:
            f.write(header + '\n' + test_src)
        q = subprocess.run(['cargo', 'kani', 'playback', '-Z', 'concrete-playback', '--lib', '--', 'kani_concrete_playback'],
                           cwd=cwd, env=e, capture_output=True, text=True, timeout=timeout)
        nat = q.stdout + q.stderr
    except subprocess.TimeoutExpired:
        nat = 'native playback timed out'
    finally:
        with open(slot, 'w') as f:
            f.write(header + '\n')
    res['native_tail'] = nat[-5000:]
    res['reproduced'] = bool(re.search(r'test result: FAILED', nat)) and 'kani_concrete_playback' in nat
    if not res['reproduced']:
        res['note'] = 'the counterexample did not fail natively'
    return res
