"""Mechanical extraction of real functions/types from /repo into a single Verus file.

A unit spec (units/<name>.py) provides
  TEMPLATE : Verus source with `//@@ <item-key>` lines where extracted items are placed
  ITEMS    : { key: dict(file=..., path=..., rewrites=[...], ret='r', contract='...',
                        loops={k: 'invariant ...'}, proofs=[(anchor_literal, 'proof {..}')],
                        fragment=None|dict(...)) }
Every rewrite is one of the closed kinds below, has an expected match count and is logged.
A rewrite that does not match its expected count is a LOST ANCHOR (exit 2), never a verdict.

Rewrite kinds
  ('lit',  old, new, count)        literal text replacement (whitespace-normalised match of `old`)
  ('re',   pattern, repl, count)   regex replacement (count = expected number of substitutions;
                                   None = any number >= 0, used only for type-path renames R2)
  ('strip_attrs',)                 R1: remove #[...] / #![...] attributes (always applied first)
What is dropped: attributes, visibility before the item keyword, comments are kept as is.
"""
import hashlib
import os
import re

from rustlex import Source, lex, match_close, LexError, norm


class LostAnchor(Exception):
    pass


def sha(s):
    return hashlib.sha256(s.encode('utf-8')).hexdigest()[:16]


def strip_attrs(text):
    toks = lex(text)
    out, pos, n = [], 0, 0
    j = 0
    while j < len(toks):
        t = toks[j]
        if t[0] == 'p' and t[1] == '#':
            k = j + 1
            if k < len(toks) and toks[k][1] == '!':
                k += 1
            if k < len(toks) and toks[k][1] == '[':
                c = match_close(toks, k)
                out.append(text[pos:t[2]])
                pos = toks[c][3]
                n += 1
                j = c + 1
                continue
        j += 1
    out.append(text[pos:])
    return ''.join(out), n


def _lit_regex(old):
    """literal match tolerant to whitespace differences"""
    parts = [re.escape(p) for p in old.split()]
    return re.compile(r'\s*'.join(parts)) if False else re.compile(r'\s+'.join(parts))


def apply_rewrites(text, rewrites, log, key):
    for rw in rewrites:
        kind = rw[0]
        if kind == 'lit':
            _, old, new, count = rw
            rx = _lit_regex(old)
            found = len(rx.findall(text))
            if found != count:
                raise LostAnchor('%s: literal rewrite %r expected %d match(es), found %d' % (key, old[:60], count, found))
            text = rx.sub(lambda m: new, text)
            log.append({'item': key, 'rule': 'lit', 'old': old, 'new': new, 'count': found})
        elif kind == 're':
            _, pat, repl, count = rw
            text, found = re.subn(pat, repl, text)
            if count is not None and found != count:
                raise LostAnchor('%s: regex rewrite %r expected %d match(es), found %d' % (key, pat[:60], count, found))
            log.append({'item': key, 'rule': 're', 'old': pat, 'new': repl, 'count': found})
        elif kind == 'refn':
            # regex with a python callable computing the replacement from the match (e.g. operator -> stub function),
            # so that a changed operator still extracts (and then fails its obligation) instead of losing the anchor
            _, pat, fn, count = rw
            found = len(re.findall(pat, text))
            if count is not None and found != count:
                raise LostAnchor('%s: regex rewrite %r expected %d match(es), found %d' % (key, pat[:60], count, found))
            text = re.sub(pat, fn, text)
            log.append({'item': key, 'rule': 'refn', 'old': pat, 'new': getattr(fn, '__doc__', None) or 'callable', 'count': found})
        else:
            raise ValueError('unknown rewrite kind %r' % (kind,))
    return text


def _cond(txt, body):
    """{{if_has:IDENT}} ... {{end}} blocks in spliced texts are kept only if IDENT occurs (as an identifier) in the extracted function:
    an invariant may mention a local of the code without turning the local's removal into a compile error (it then simply is not stated,
    and whatever it supported fails as an obligation)."""
    def rep(m):
        return m.group(2) if re.search(r'\b%s\b' % re.escape(m.group(1)), body) else ''
    return re.sub(r'\{\{if_has:(\w+)\}\}(.*?)\{\{end\}\}', rep, txt, flags=re.S)


def splice_fn(text, item, key):
    """text starts at `fn`. Name the return value, insert contract before the body, insert loop
    invariants before loop bodies and proof blocks before anchors."""
    toks = lex(text)
    item = dict(item)
    item['contract'] = _cond(item.get('contract', '') or '', text)
    item['loops'] = dict(item.get('loops') or {})     # {{if_has:X}} in a loop invariant is resolved against the loop's enclosing block (below)
    item['proofs'] = [(a, _cond(t, text)) for a, t in (item.get('proofs') or [])]
    # body open: first '{' at paren depth 0
    j = 0
    body = None
    arrow = None
    where = None
    while j < len(toks):
        t = toks[j]
        if t[0] == 'p' and t[1] in ('(', '['):
            j = match_close(toks, j) + 1
            continue
        if t[0] == 'p' and t[1] == '->' and arrow is None:
            arrow = j
        if t[0] == 'id' and t[1] == 'where' and where is None:
            where = j
        if t[0] == 'p' and t[1] == '{':
            body = j
            break
        j += 1
    if body is None:
        raise LostAnchor('%s: no function body' % key)
    body_close = match_close(toks, body)
    inserts = []  # (byte_pos, text)
    ret = item.get('ret')
    if ret and arrow is not None:
        end_tok = where if where is not None else body
        s, e = toks[arrow][3], toks[end_tok][2]
        rtype = text[s:e].strip()
        inserts.append((s, e, ' (%s: %s)\n' % (ret, rtype)))
    contract = item.get('contract', '').strip('\n')
    if contract:
        inserts.append((toks[body][2], toks[body][2], '\n' + contract + '\n'))
    # loops
    loops = item.get('loops') or {}
    loop_body_open = {}
    loop_body_close = {}
    if loops or any(a.startswith('@loop') or a.startswith('@afterloop') for a, _ in item.get('proofs') or []):
        idx = 0
        j = body + 1
        while j < body_close:
            t = toks[j]
            if t[0] == 'id' and t[1] in ('while', 'for', 'loop'):
                # skip `for<'a>` and `impl .. for`
                if t[1] == 'for' and toks[j + 1][1] == '<':
                    j += 1
                    continue
                k = j + 1
                while not (toks[k][0] == 'p' and toks[k][1] == '{'):
                    if toks[k][0] == 'p' and toks[k][1] in ('(', '['):
                        k = match_close(toks, k)
                    k += 1
                if idx in loops:
                    # scope of an identifier usable in this loop's invariant: the innermost block containing the loop, up to the loop's end
                    depth, b = 0, j
                    while b > body:
                        b -= 1
                        tb = toks[b]
                        if tb[0] == 'p' and tb[1] == '}':
                            depth += 1
                        elif tb[0] == 'p' and tb[1] == '{':
                            if depth == 0:
                                break
                            depth -= 1
                    scope = text[toks[b][2]:toks[match_close(toks, k)][3]]
                    inserts.append((toks[k][2], toks[k][2], '\n' + _cond(loops[idx], scope).strip('\n') + '\n'))
                loop_body_open[idx] = toks[k][3]
                loop_body_close[idx] = toks[match_close(toks, k)][3]
                idx += 1
            j += 1
        missing = [i for i in loops if i >= idx]
        if missing:
            raise LostAnchor('%s: loop #%s not found (function has %d loops)' % (key, missing, idx))
        item['_nloops'] = idx
    for anchor, ptxt in item.get('proofs') or []:
        if anchor == '@entry':
            p = toks[body][3]
            inserts.append((p, p, '\n' + ptxt + '\n'))
            continue
        if anchor == '@tail':
            # before the last top-level statement / tail expression of the body (position, not text: survives any edit of the statements)
            j = body + 1
            start = None
            fresh = True
            while j < body_close:
                t = toks[j]
                if fresh:
                    start = j
                    fresh = False
                if t[0] == 'p' and t[1] in ('(', '[', '{'):
                    k = match_close(toks, j)
                    nxt = toks[k + 1] if k + 1 < body_close else None
                    if t[1] == '{' and (nxt is None or not ((nxt[0] == 'id' and nxt[1] == 'else') or (nxt[0] == 'p' and nxt[1] in ('.', '?', ';', ')', ',', '=>')))):
                        fresh = True
                    j = k + 1
                    continue
                if t[0] == 'p' and t[1] == ';':
                    fresh = True
                j += 1
            if start is None:
                raise LostAnchor('%s: proof anchor @tail: empty body' % key)
            p = toks[start][2]
            inserts.append((p, p, ptxt + '\n'))
            continue
        if anchor.startswith('@afterloop'):
            k = int(anchor[10:])
            if k not in loop_body_close:
                raise LostAnchor('%s: proof anchor %s: loop not found' % (key, anchor))
            p = loop_body_close[k]
            inserts.append((p, p, '\n' + ptxt + '\n'))
            continue
        if anchor.startswith('@loop'):
            k = int(anchor[5:])
            if k not in loop_body_open:
                raise LostAnchor('%s: proof anchor %s: loop not found' % (key, anchor))
            p = loop_body_open[k]
            inserts.append((p, p, '\n' + ptxt + '\n'))
            continue
        after = anchor.startswith('after:')
        a2 = anchor[6:] if after else anchor
        rx = re.compile(a2[3:]) if a2.startswith('re:') else _lit_regex(a2)
        ms = list(rx.finditer(text))
        if len(ms) != 1:
            raise LostAnchor('%s: proof anchor %r matched %d times' % (key, anchor[:60], len(ms)))
        p = ms[0].end() if after else ms[0].start()
        inserts.append((p, p, ('\n' + ptxt + '\n') if after else (ptxt + '\n')))
    out = text
    for s, e, ins in sorted(inserts, key=lambda x: -x[0]):
        out = out[:s] + ins + out[e:]
    return out


def fragment_span(text, frag, key):
    """character span (start, end) of the k-th `match` expression / closure (`|params| {body}`) of the text, located exactly as extract_fragment does"""
    toks = lex(text)
    kind, index = frag['kind'], frag['index']
    if kind == 'match':
        hits = [j for j, t in enumerate(toks) if t[0] == 'id' and t[1] == 'match']
        if index >= len(hits):
            raise LostAnchor('%s: elide: match #%d not found (%d matches)' % (key, index, len(hits)))
        j = hits[index]
        k = j + 1
        while not (toks[k][0] == 'p' and toks[k][1] == '{'):
            if toks[k][0] == 'p' and toks[k][1] in ('(', '['):
                k = match_close(toks, k)
            k += 1
        c = match_close(toks, k)
        scrut = text[toks[j][3]:toks[k][2]].strip()
        if frag.get('expect_scrutinee') is not None and norm(scrut) != norm(frag['expect_scrutinee']):
            raise LostAnchor('%s: elide: match #%d scrutinee is %r, expected %r' % (key, index, scrut, frag['expect_scrutinee']))
        return toks[j][2], toks[c][3], {'scrutinee': scrut}
    if kind == 'closure':
        hits = []
        for j, t in enumerate(toks):
            if t[0] == 'p' and t[1] == '|' and j > 0 and toks[j - 1][1] in ('(', ',', '=', 'move'):
                hits.append(j)
        openers, skip = [], -1
        for j in hits:
            if j <= skip:
                continue
            k = j + 1
            while not (toks[k][0] == 'p' and toks[k][1] == '|'):
                k += 1
            skip = k
            openers.append((j, k))
        if index >= len(openers):
            raise LostAnchor('%s: elide: closure #%d not found (%d closures)' % (key, index, len(openers)))
        j, k = openers[index]
        b = k + 1
        if toks[b][1] == '->':
            while b < len(toks) and toks[b][1] != '{':
                b += 1
        if b >= len(toks) or toks[b][1] != '{':
            raise LostAnchor('%s: elide: closure #%d has no block body' % (key, index))
        c = match_close(toks, b)
        params = text[toks[j][3]:toks[k][2]].strip()
        if frag.get('expect_params') is not None and norm(params) != norm(frag['expect_params']):
            raise LostAnchor('%s: elide: closure #%d params are %r, expected %r' % (key, index, params, frag['expect_params']))
        return toks[j][2], toks[c][3], {'params': params}
    raise ValueError(kind)


def elide_fragments(text, elides, key, log):
    """R6b: the inverse of lifting - the k-th match expression / closure of the function (verified on its own as a lifted fragment by another
    item or unit) is replaced by a call `to`; indices refer to the ORIGINAL text, replacements are applied back to front"""
    spans = []
    for el in elides:
        s, e, info = fragment_span(text, el, key)
        spans.append((s, e, el, info))
    for s, e, el, info in sorted(spans, key=lambda x: -x[0]):
        log.append({'item': key, 'rule': 'R6b-elide-fragment', 'fragment': el['kind'] + '#%d' % el['index'], 'detail': info, 'to': el['to'], 'dropped_bytes': e - s})
        text = text[:s] + el['to'] + text[e:]
    return text


def extract_fragment(text, frag, key):
    """R6: lift a fragment of a function to a named function.
    frag = dict(kind='match'|'closure'|'block', index=k, sig='fn name(params) -> T', scrutinee=None|'param')
    kind 'match': the k-th `match` expression (in token order) of the function body; if `scrutinee` is given the
    scrutinee expression is replaced by that identifier. Result: `<sig> { <match expr> }`.
    kind 'closure': k-th closure `|..| {body}` or `|..| -> T {body}`; result `<sig> <body block>`.
    kind 'stmt': ONE statement (loop / if / match / let) starting at the first match of regex `from`; result `<sig> { <statement> <tail> }`.
    kind 'tail': the statements of the body from the first match of regex `from` to its end; result `<sig> { <statements> }` (index unused).
    kind 'prefix': the statements of the body before the first match of regex `until`; result `<sig> { <statements> <tail> }` (index unused).
    """
    toks = lex(text)
    kind, index = frag['kind'], frag['index']
    if kind == 'match':
        hits = [j for j, t in enumerate(toks) if t[0] == 'id' and t[1] == 'match']
        if index >= len(hits):
            raise LostAnchor('%s: match #%d not found (%d matches)' % (key, index, len(hits)))
        j = hits[index]
        k = j + 1
        while not (toks[k][0] == 'p' and toks[k][1] == '{'):
            if toks[k][0] == 'p' and toks[k][1] in ('(', '['):
                k = match_close(toks, k)
            k += 1
        c = match_close(toks, k)
        scrut = text[toks[j][3]:toks[k][2]].strip()
        if frag.get('expect_scrutinee') is not None and norm(scrut) != norm(frag['expect_scrutinee']):
            raise LostAnchor('%s: match #%d scrutinee is %r, expected %r' % (key, index, scrut, frag['expect_scrutinee']))
        new_scrut = frag.get('scrutinee') or scrut
        body = 'match %s %s' % (new_scrut, text[toks[k][2]:toks[c][3]])
        if frag.get('tail'):
            # the lifted match is a statement (it may `return` early); `tail` is the value the function returns when it falls through
            body = body + '\n    ' + frag['tail']
        return '%s {\n    %s\n}' % (frag['sig'], body), {'scrutinee': scrut}
    if kind == 'closure':
        # closures start with '|' directly after '(' or ',' or '=' tokens
        hits = []
        for j, t in enumerate(toks):
            if t[0] == 'p' and t[1] == '|' and j > 0 and toks[j - 1][1] in ('(', ',', '=', 'move'):
                hits.append(j)
        # drop closing bars: keep only openers (every other bar within a closure header)
        openers, skip = [], -1
        for j in hits:
            if j <= skip:
                continue
            k = j + 1
            while not (toks[k][0] == 'p' and toks[k][1] == '|'):
                k += 1
            skip = k
            openers.append((j, k))
        if index >= len(openers):
            raise LostAnchor('%s: closure #%d not found (%d closures)' % (key, index, len(openers)))
        j, k = openers[index]
        b = k + 1
        if toks[b][1] == '->':
            # `|params| -> Type { body }`: skip the declared return type
            while b < len(toks) and toks[b][1] != '{':
                b += 1
        if b >= len(toks) or toks[b][1] != '{':
            raise LostAnchor('%s: closure #%d has no block body' % (key, index))
        c = match_close(toks, b)
        params = text[toks[j][3]:toks[k][2]].strip()
        if frag.get('expect_params') is not None and norm(params) != norm(frag['expect_params']):
            raise LostAnchor('%s: closure #%d params are %r, expected %r' % (key, index, params, frag['expect_params']))
        return '%s %s' % (frag['sig'], text[toks[b][2]:toks[c][3]]), {'params': params}
    if kind == 'prefix':
        # the statements of the function body BEFORE the first match of the regex `until`, as a function returning `tail`
        j = 0
        while j < len(toks):
            t = toks[j]
            if t[0] == 'p' and t[1] in ('(', '['):
                j = match_close(toks, j) + 1
                continue
            if t[0] == 'p' and t[1] == '{':
                break
            j += 1
        if j >= len(toks):
            raise LostAnchor('%s: no function body' % key)
        b0 = toks[j][3]
        m = re.compile(frag['until']).search(text, b0)
        if not m:
            raise LostAnchor('%s: prefix fragment: marker %r not found' % (key, frag['until'][:60]))
        return '%s {%s\n    %s\n}' % (frag['sig'], text[b0:m.start()], frag['tail']), {'until': frag['until'], 'dropped_bytes': len(text) - m.start()}
    if kind == 'tail':
        # the statements of the function body FROM the first match of the regex `from` to the end of the body, as a function
        j = 0
        while j < len(toks):
            t = toks[j]
            if t[0] == 'p' and t[1] in ('(', '['):
                j = match_close(toks, j) + 1
                continue
            if t[0] == 'p' and t[1] == '{':
                break
            j += 1
        if j >= len(toks):
            raise LostAnchor('%s: no function body' % key)
        b0, b1 = toks[j][3], toks[match_close(toks, j)][2]
        m = re.compile(frag['from']).search(text, b0)
        if not m:
            raise LostAnchor('%s: tail fragment: marker %r not found' % (key, frag['from'][:60]))
        return '%s {\n%s\n}' % (frag['sig'], text[m.start():b1]), {'from': frag['from'], 'dropped_bytes': m.start() - b0}
    if kind == 'stmt':
        # ONE statement of the body: from the first match of the regex `from` (which must start at a `for` / `while` / `if` / `match` keyword
        # or a `let`) through the end of that statement (its closing brace, or the `;` for a let), as the body of a function
        m = re.compile(frag['from']).search(text)
        if not m:
            raise LostAnchor('%s: stmt fragment: marker %r not found' % (key, frag['from'][:60]))
        j = next((i for i, t in enumerate(toks) if t[2] >= m.start()), None)
        if j is None:
            raise LostAnchor('%s: stmt fragment: no token at marker' % key)
        k = j
        while k < len(toks):
            t = toks[k]
            if t[0] == 'p' and t[1] in ('(', '['):
                k = match_close(toks, k) + 1
                continue
            if t[0] == 'p' and t[1] == '{':
                end = toks[match_close(toks, k)][3]
                break
            if t[0] == 'p' and t[1] == ';':
                end = t[3]
                break
            k += 1
        else:
            raise LostAnchor('%s: stmt fragment: statement end not found' % key)
        return '%s {\n%s\n%s\n}' % (frag['sig'], text[toks[j][2]:end], frag.get('tail', '')), {'from': frag['from']}
    raise ValueError(kind)


RUST_KEYWORDS = {'if', 'match', 'while', 'for', 'loop', 'return', 'fn', 'let', 'Some', 'None', 'Ok', 'Err', 'assert', 'proof', 'forall', 'exists',
                 'requires', 'ensures', 'invariant', 'decreases', 'old', 'final', 'choose', 'seq', 'matches', 'unreachable', 'unimplemented'}


def called_names(text):
    """free-function call sites `name(` (not methods, not paths, not macros, not definitions)"""
    toks = lex(text)
    names = set()
    for j in range(len(toks) - 1):
        t = toks[j]
        if t[0] == 'id' and toks[j + 1][1] == '(' and t[1] not in RUST_KEYWORDS and t[1][0].islower():
            prev = toks[j - 1][1] if j > 0 else ''
            if prev in ('.', '::', 'fn'):
                continue
            names.add(t[1])
    return names


def split_params(ptxt):
    """'a: &T, b: U' -> [('a', '&T'), ('b', 'U')] (top-level commas only)"""
    out, depth, cur = [], 0, ''
    for ch in ptxt:
        if ch in '(<[':
            depth += 1
        elif ch in ')>]':
            depth -= 1
        if ch == ',' and depth == 0:
            out.append(cur)
            cur = ''
        else:
            cur += ch
    if cur.strip():
        out.append(cur)
    res = []
    for p in out:
        n, _, ty = p.partition(':')
        res.append((n.strip(), ty.strip()))
    return res


def auto_helper(text, name, key):
    """A pure helper function that the extracted code calls but the unit does not name: emit it verbatim as an exec fn whose
    contract is `result == <its own body read as a spec function>`.  A behaviour-preserving extract-helper refactor then stays
    transparent to the callers' proofs; if the body is not expressible as a spec function Verus rejects it (=> exit 2)."""
    toks = lex(text)
    # signature pieces
    j = 0
    while toks[j][1] != '(':
        j += 1
    pc = match_close(toks, j)
    params = split_params(text[toks[j][3]:toks[pc][2]])
    k = pc + 1
    arrow = None
    while toks[k][1] != '{':
        if toks[k][1] == '->':
            arrow = k
        if toks[k][1] in ('(', '['):
            k = match_close(toks, k)
        k += 1
    if arrow is None:
        raise LostAnchor('%s: auto helper %s has no return type' % (key, name))
    rtype = text[toks[arrow][3]:toks[k][2]].strip()
    body = text[toks[k][2]:toks[match_close(toks, k)][3]]
    plist = ', '.join('%s: %s' % (n, t) for n, t in params)
    args = ', '.join(n for n, _ in params)
    return ('// auto-extracted pure helper (contract: result == its own body read as a spec function)\n'
            'spec fn %s__spec(%s) -> %s %s\n'
            'fn %s(%s) -> (r: %s)\n    ensures r == %s__spec(%s),\n%s\n'
            % (name, plist, rtype, body, name, plist, rtype, name, args, body))


def build(unit, repo, outdir):
    """returns (out_path, info) ; raises LostAnchor"""
    log, items_info = [], []
    rendered = {}
    for key, item in unit.ITEMS.items():
        fpath = os.path.join(repo, item['file'])
        if not os.path.exists(fpath):
            raise LostAnchor('%s: file %s missing' % (key, item['file']))
        try:
            src = Source(fpath)
            s, e, _, _ = src.find_item(item['path'])
        except (LookupError, LexError) as ex:
            raise LostAnchor('%s: %s' % (key, ex))
        raw = src.src[s:e]
        text, nattr = strip_attrs(raw)
        log.append({'item': key, 'rule': 'R1-strip-attrs', 'count': nattr})
        frag_info = None
        if item.get('fragment'):
            text, frag_info = extract_fragment(text, item['fragment'], key)
            log.append({'item': key, 'rule': 'R6-lift-fragment', 'fragment': item['fragment']['kind'] + '#%d' % item['fragment']['index'], 'detail': frag_info})
        if item.get('elide'):
            text = elide_fragments(text, item['elide'], key, log)
        pre_rewrite = text
        text = apply_rewrites(text, item.get('rewrites') or [], log, key)
        if text.lstrip().startswith('fn ') or item.get('fragment'):
            text = splice_fn(text, item, key)
        elif re.match(r'\s*(enum|struct)\s', text):
            text = 'pub ' + text.lstrip()   # visibility was dropped with the span; types are public inside the single verified file
        line0 = src.src.count('\n', 0, s) + 1
        items_info.append({
            'key': key, 'file': item['file'], 'item': item['path'],
            'line_start': line0, 'line_end': line0 + raw.count('\n'),
            'sha256_span': sha(raw), 'sha256_after_R1_R6': sha(pre_rewrite),
            'has_contract': bool(item.get('contract', '').strip()),
            'loops_with_invariant': sorted((item.get('loops') or {}).keys()),
        })
        rendered[key] = text
    # ---- auto helpers -------------------------------------------------------------------------------
    auto_txt = []
    if getattr(unit, 'AUTO_HELPERS', False):
        defined = set(re.findall(r'\bfn\s+([A-Za-z_][A-Za-z0-9_]*)', unit.TEMPLATE))
        for t in rendered.values():
            defined |= set(re.findall(r'\bfn\s+([A-Za-z_][A-Za-z0-9_]*)', t))
        files = sorted({it['file'] for it in unit.ITEMS.values()})
        work = [(k, t) for k, t in rendered.items()]
        seen = set()
        while work:
            k, t = work.pop()
            for name in sorted(called_names(t) - defined - seen):
                seen.add(name)
                for f in files:
                    try:
                        src = Source(os.path.join(repo, f))
                        s0, e0, _, _ = src.find_item('fn ' + name)
                    except (LookupError, LexError):
                        continue
                    raw = src.src[s0:e0]
                    txt, nattr = strip_attrs(raw)
                    txt = apply_rewrites(txt, [rw for rw in getattr(unit, 'GLOBAL_REWRITES', [])], log, 'auto:' + name)
                    h = auto_helper(txt, name, k)
                    auto_txt.append(h)
                    defined.add(name)
                    log.append({'item': 'auto:' + name, 'rule': 'auto-helper', 'file': f, 'called_from': k})
                    items_info.append({'key': 'auto:' + name, 'file': f, 'item': 'fn ' + name, 'line_start': src.src.count('\n', 0, s0) + 1,
                                       'line_end': src.src.count('\n', 0, e0) + 1, 'sha256_span': sha(raw), 'sha256_after_R1_R6': sha(txt),
                                       'has_contract': True, 'loops_with_invariant': [], 'auto_helper': True})
                    work.append(('auto:' + name, txt))
                    break
    out = []
    linemap = []  # (first_line, last_line, key)
    used = set()
    for line in unit.TEMPLATE.split('\n'):
        if re.match(r'\s*//@@auto-helpers\s*$', line):
            for h in auto_txt:
                out.extend(h.split('\n'))
            continue
        m = re.match(r'\s*//@@\s*(\S+)\s*$', line)
        if m:
            key = m.group(1)
            if key not in rendered:
                raise LostAnchor('template references unknown item %r' % key)
            used.add(key)
            first = len(out) + 1
            out.extend(rendered[key].split('\n'))
            linemap.append((first, len(out), key))
        else:
            out.append(line)
    unused = set(rendered) - used
    if unused:
        raise LostAnchor('items not placed in template: %s' % sorted(unused))
    os.makedirs(outdir, exist_ok=True)
    path = os.path.join(outdir, unit.NAME.replace('-', '_').replace('/', '_') + '.rs')
    with open(path, 'w') as f:
        f.write('\n'.join(out))
    return path, {'rewrites': log, 'items': items_info, 'linemap': linemap, 'text': '\n'.join(out)}
