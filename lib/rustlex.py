"""Minimal Rust lexer used by the extractor.

It does one thing: turn a Rust source file into a token list with byte offsets, such that
comments, string/char literals and lifetimes never confuse brace matching.  Items are located by
*item path* (never by line number) and their source text is copied by byte span.

Token = (kind, text, start, end) with kind in
  'id' (identifier/keyword), 'num', 'str', 'chr', 'life', 'p' (punctuation; '->', '=>', '::' fused),
  'doc' is never produced: comments (incl. doc comments) are skipped entirely.
"""
import re

ID_START = re.compile(r'[A-Za-z_]')
ID_RE = re.compile(r'[A-Za-z_][A-Za-z0-9_]*')
NUM_RE = re.compile(r'[0-9][A-Za-z0-9_]*(\.[0-9][A-Za-z0-9_]*)?')


class LexError(Exception):
    pass


def lex(src):
    toks = []
    i, n = 0, len(src)
    while i < n:
        c = src[i]
        if c.isspace():
            i += 1
            continue
        if src.startswith('//', i):
            j = src.find('\n', i)
            i = n if j < 0 else j + 1
            continue
        if src.startswith('/*', i):
            depth, j = 1, i + 2
            while j < n and depth:
                if src.startswith('/*', j):
                    depth += 1; j += 2
                elif src.startswith('*/', j):
                    depth -= 1; j += 2
                else:
                    j += 1
            i = j
            continue
        # raw strings / byte strings
        m = re.match(r'b?r(#*)"', src[i:i + 40])
        if m:
            hashes = m.group(1)
            close = '"' + hashes
            j = src.find(close, i + m.end())
            if j < 0:
                raise LexError('unterminated raw string at %d' % i)
            toks.append(('str', src[i:j + len(close)], i, j + len(close)))
            i = j + len(close)
            continue
        if c == '"' or (c == 'b' and i + 1 < n and src[i + 1] == '"'):
            j = i + (2 if c == 'b' else 1)
            while j < n and src[j] != '"':
                j += 2 if src[j] == '\\' else 1
            toks.append(('str', src[i:j + 1], i, j + 1))
            i = j + 1
            continue
        if c == "'" or (c == 'b' and i + 1 < n and src[i + 1] == "'"):
            k = i + (1 if c == 'b' else 0)
            # char literal or lifetime?
            if k + 1 < n and src[k + 1] == '\\':
                j = src.find("'", k + 3) if src[k + 2] != 'u' and src[k + 2] != 'x' else src.find("'", k + 2)
                if src[k + 2] == "'" :  # '\''
                    j = k + 3
                toks.append(('chr', src[i:j + 1], i, j + 1))
                i = j + 1
                continue
            if k + 2 < n and src[k + 2] == "'":
                toks.append(('chr', src[i:k + 3], i, k + 3))
                i = k + 3
                continue
            # multi-byte char literal like 'é'
            m2 = re.match(r"'[^'\\\n]'", src[k:k + 8])
            if m2 and not ID_START.match(src[k + 1]):
                toks.append(('chr', src[i:k + m2.end()], i, k + m2.end()))
                i = k + m2.end()
                continue
            m3 = ID_RE.match(src, k + 1)
            if m3:
                toks.append(('life', src[i:m3.end()], i, m3.end()))
                i = m3.end()
                continue
            raise LexError('bad quote at %d' % i)
        if ID_START.match(c):
            m = ID_RE.match(src, i)
            toks.append(('id', m.group(0), i, m.end()))
            i = m.end()
            continue
        if c.isdigit():
            m = NUM_RE.match(src, i)
            # do not swallow `..` ranges or method calls on ints: 1..2 / 1.max(2)
            txt = m.group(0)
            if '.' in txt:
                after = src[m.start() + txt.index('.') + 1]
                if not after.isdigit():
                    txt = txt[:txt.index('.')]
            toks.append(('num', txt, i, i + len(txt)))
            i += len(txt)
            continue
        for p in ('->', '=>', '::'):
            if src.startswith(p, i):
                toks.append(('p', p, i, i + len(p)))
                i += len(p)
                break
        else:
            toks.append(('p', c, i, i + 1))
            i += 1
    return toks


OPEN = {'(': ')', '[': ']', '{': '}'}
CLOSE = {')', ']', '}'}


def match_close(toks, k):
    """toks[k] is an opening bracket; return index of its matching close."""
    depth = 0
    for j in range(k, len(toks)):
        t = toks[j]
        if t[0] == 'p':
            if t[1] in OPEN:
                depth += 1
            elif t[1] in CLOSE:
                depth -= 1
                if depth == 0:
                    return j
    raise LexError('unbalanced bracket at byte %d' % toks[k][2])


def norm(s):
    return re.sub(r'\s+', ' ', s).strip()


class Source:
    def __init__(self, path):
        self.path = path
        with open(path, encoding='utf-8') as f:
            self.src = f.read()
        self.toks = lex(self.src)

    # ---- item location ---------------------------------------------------------------------
    def _blocks(self, lo, hi):
        """yield (kw_index, header_text, open_idx, close_idx) for impl/mod/trait blocks directly in toks[lo:hi]"""
        toks = self.toks
        j = lo
        while j < hi:
            t = toks[j]
            if t[0] == 'p' and t[1] in OPEN:
                j = match_close(toks, j) + 1
                continue
            if t[0] == 'id' and t[1] in ('impl', 'mod', 'trait'):
                k = j + 1
                while k < hi and not (toks[k][0] == 'p' and toks[k][1] in ('{', ';')):
                    if toks[k][0] == 'p' and toks[k][1] in ('(', '['):
                        k = match_close(toks, k)
                    k += 1
                if k < hi and toks[k][1] == '{':
                    c = match_close(toks, k)
                    yield (j, norm(self.src[t[2]:toks[k][2]]), k, c)
                    j = c + 1
                    continue
            j += 1

    def find_item(self, path):
        """path: 'fn name' | 'impl Hdr::fn name' | 'enum X' | 'struct X' | 'const X' | 'mod m::fn f' ...
        Returns (start_byte, end_byte, tok_lo, tok_hi) of the item starting at its keyword
        (visibility, attributes and doc comments before it are not part of the span)."""
        parts = [norm(p) for p in path.split('::fn ')]
        if len(parts) == 2:
            parts[1] = 'fn ' + parts[1]
        # allow nesting with ' / '
        segs = []
        for p in parts:
            segs.extend(norm(x) for x in p.split(' / '))
        lo, hi = 0, len(self.toks)
        for seg in segs[:-1]:
            found = [b for b in self._blocks(lo, hi) if self._hdr_match(b[1], seg)]
            if len(found) != 1:
                raise LookupError('%s: block %r matched %d times' % (self.path, seg, len(found)))
            lo, hi = found[0][2] + 1, found[0][3]
        return self._find_leaf(segs[-1], lo, hi)

    @staticmethod
    def _hdr_match(hdr, seg):
        # compare with generics' whitespace normalised
        a = re.sub(r'\s*([<>,:&])\s*', r'\1', hdr)
        b = re.sub(r'\s*([<>,:&])\s*', r'\1', seg)
        return a == b

    def _find_leaf(self, seg, lo, hi):
        toks = self.toks
        kw, name = seg.split(' ', 1)
        hits = []
        j = lo
        while j < hi:
            t = toks[j]
            if t[0] == 'p' and t[1] in OPEN:
                j = match_close(toks, j) + 1
                continue
            if t[0] == 'id' and t[1] == kw and j + 1 < hi and toks[j + 1][1] == name:
                # find end
                k = j + 2
                while k < hi and not (toks[k][0] == 'p' and toks[k][1] in ('{', ';')):
                    if toks[k][0] == 'p' and toks[k][1] in ('(', '['):
                        k = match_close(toks, k)
                    k += 1
                if toks[k][1] == '{':
                    c = match_close(toks, k)
                else:
                    c = k
                hits.append((t[2], toks[c][3], j, c + 1))
                j = c + 1
                continue
            j += 1
        if len(hits) != 1:
            raise LookupError('%s: item %r matched %d times' % (self.path, seg, len(hits)))
        return hits[0]
