"""Run single-file Verus on an extracted unit and classify the diagnostics."""
import json
import os
import re
import subprocess
import time

VERUS = 'verus'

# message prefix -> obligation kind
KINDS = [
    ('postcondition not satisfied', 'post'),
    ('precondition not satisfied', 'callee-pre'),
    ('possible arithmetic underflow/overflow', 'overflow'),
    ('possible division by zero', 'div0'),
    ('possible bit shift underflow/overflow', 'overflow'),
    ('invariant not satisfied at end of loop body', 'inv-preserve'),
    ('invariant not satisfied before loop', 'inv-entry'),
    ('loop invariant not satisfied', 'inv-preserve'),
    ('decreases not satisfied', 'decreases'),
    ('could not prove termination', 'decreases'),
    ('assertion failed', 'assert'),
    ('assertion failure', 'assert'),
    ('unreachable', 'unreachable'),
    ('constructed value may fail to meet its declared type invariant', 'type-inv'),
    ('recommendation not met', 'recommends'),
]


def classify(msg):
    for p, k in KINDS:
        if p in msg:
            return k
    if 'rlimit' in msg.lower() or 'resource limit' in msg.lower():
        return 'rlimit'
    return 'other'


def run(path, rlimit=None, threads=8, timeout=900, extra=None):
    cmd = [VERUS, os.path.basename(path), '--output-json', '--time', '--error-format=json',
           '--triggers-mode', 'silent', '--multiple-errors', '4', '--num-threads', str(threads)]
    if rlimit:
        cmd += ['--rlimit', str(rlimit)]
    if extra:
        cmd += extra
    t0 = time.time()
    try:
        p = subprocess.run(cmd, cwd=os.path.dirname(path), capture_output=True, text=True, timeout=timeout)
    except subprocess.TimeoutExpired:
        return {'status': 'timeout', 'wall_s': time.time() - t0, 'cmd': ' '.join(cmd), 'errors': [], 'functions': [],
                'raw_stderr': ''}
    wall = time.time() - t0
    res = {'cmd': ' '.join(cmd), 'wall_s': wall, 'rc': p.returncode, 'errors': [], 'functions': [], 'warnings': 0}
    try:
        out = json.loads(p.stdout)
    except Exception:
        out = None
    diags = []
    for line in p.stderr.split('\n'):
        line = line.strip()
        if line.startswith('{'):
            try:
                diags.append(json.loads(line))
            except Exception:
                pass
    res['raw_stderr'] = '\n'.join(d.get('rendered') or '' for d in diags if d.get('level') == 'error')[:20000] or p.stderr[-4000:]
    for d in diags:
        if d.get('level') == 'warning':
            res['warnings'] += 1
        if d.get('level') != 'error':
            continue
        msg = d.get('message', '')
        if msg.startswith('aborting due to'):
            continue
        prim = [s for s in d.get('spans', []) if s.get('is_primary')]
        sec = [s for s in d.get('spans', []) if not s.get('is_primary')]
        line_no = prim[0]['line_start'] if prim else None
        res['errors'].append({
            'message': msg, 'kind': classify(msg), 'line': line_no,
            'text': (prim[0]['text'][0]['text'].strip() if prim and prim[0].get('text') else ''),
            'label': prim[0].get('label') if prim else None,
            'other_lines': [s['line_start'] for s in sec],
            'rendered': d.get('rendered', ''),
        })
    if out is None:
        res['status'] = 'tool-error'
        return res
    vr = out.get('verification-results', {})
    res['verified'] = vr.get('verified', 0)
    res['failed'] = vr.get('errors', 0)
    tm = out.get('times-ms', {})
    smt = tm.get('smt', {})
    res['smt_ms'] = smt.get('smt-run', 0)
    res['total_ms'] = tm.get('total', 0)
    res['verus_version'] = out.get('verus', {}).get('version')
    for m in smt.get('smt-run-module-times', []):
        for f in m.get('function-breakdown', []):
            res['functions'].append({'function': f['function'].split('::', 1)[-1], 'mode': f.get('mode:'),
                                     'ms': f.get('time'), 'rlimit': f.get('rlimit'), 'success': f.get('success')})
    if vr.get('encountered-vir-error') or (vr.get('encountered-error') and not res['functions'] and not vr.get('errors')):
        res['status'] = 'compile-error'
    elif vr.get('success'):
        res['status'] = 'verified'
    elif vr.get('errors', 0) > 0:
        res['status'] = 'failed'
    else:
        res['status'] = 'compile-error'
    return res
