use vstd::prelude::*;
verus! {
#[verifier::external_body]
pub struct Row { r: Vec<u8> }

// R4 stub: $e.into_iter().skip($a).take($b).collect()
#[verifier::external_body]
fn skip_take_collect(rows: Vec<Row>, a: usize, b: usize) -> (r: Vec<Row>)
    ensures r@ == rows@.subrange(
        if a <= rows@.len() { a as int } else { rows@.len() as int },
        if a as int + b as int <= rows@.len() { a as int + b as int } else { rows@.len() as int })
{ unimplemented!() }

pub open spec fn min(a: int, b: int) -> int { if a <= b { a } else { b } }

// R9 (combinator desugaring): Option::unwrap_or / usize::min have vstd specs already
pub fn apply_limit_offset(
    rows: Vec<Row>,
    limit: Option<usize>,
    offset: Option<usize>,
) -> (r: Vec<Row>)
    ensures
        r@ == rows@.subrange(
            min(if offset is Some { offset.unwrap() as int } else { 0 }, rows@.len() as int),
            min((if offset is Some { offset.unwrap() as int } else { 0 }) + (if limit is Some { limit.unwrap() as int } else { rows@.len() as int }), rows@.len() as int)),
{
    let start = offset.unwrap_or(0);
    if start >= rows.len() {
        return Vec::new();
    }

    let max_take = rows.len() - start;
    let take = limit.unwrap_or(max_take).min(max_take);

    skip_take_collect(rows, start, take)
}
}
fn main() {}
