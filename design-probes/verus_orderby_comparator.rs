use vstd::prelude::*;
verus! {
#[derive(PartialEq, Eq)]
pub enum Ordering { Less, Equal, Greater }
impl Ordering {
    pub fn reverse(self) -> (r: Ordering)
        ensures r == (match self { Ordering::Less => Ordering::Greater, Ordering::Equal => Ordering::Equal, Ordering::Greater => Ordering::Less })
    { match self { Ordering::Less => Ordering::Greater, Ordering::Equal => Ordering::Equal, Ordering::Greater => Ordering::Less } }
}
pub enum OrderDirection { Asc, Desc }

#[verifier::external_body] pub struct Val { v: i64 }
pub enum SqlValue { Null, V(Val) }
impl SqlValue { pub fn is_null(&self) -> (r: bool) ensures r == (*self is Null) { matches!(self, SqlValue::Null) } }

pub uninterp spec fn cmp_spec(a: SqlValue, b: SqlValue) -> Ordering;
#[verifier::external_body]
fn compare_sql_values(a: &SqlValue, b: &SqlValue) -> (r: Ordering) ensures r == cmp_spec(*a, *b) { unimplemented!() }

// spec of one key comparison under ORDER BY (NULLs last for both directions)
pub open spec fn key_cmp(a: SqlValue, d: OrderDirection, b: SqlValue) -> Ordering {
    if a is Null && b is Null { Ordering::Equal }
    else if a is Null { Ordering::Greater }
    else if b is Null { Ordering::Less }
    else { match d { OrderDirection::Asc => cmp_spec(a, b), OrderDirection::Desc => match cmp_spec(a, b) { Ordering::Less => Ordering::Greater, Ordering::Equal => Ordering::Equal, Ordering::Greater => Ordering::Less } } }
}
pub open spec fn lex(ka: Seq<(SqlValue, OrderDirection)>, kb: Seq<(SqlValue, OrderDirection)>, i: int) -> Ordering
    decreases ka.len() - i
{
    if i >= ka.len() || i >= kb.len() { Ordering::Equal }
    else if key_cmp(ka[i].0, ka[i].1, kb[i].0) != Ordering::Equal { key_cmp(ka[i].0, ka[i].1, kb[i].0) }
    else { lex(ka, kb, i + 1) }
}

// R6: closure #1 of apply_order_by lifted; R4: `for (..) in a.iter().zip(b.iter())` -> index loop over min len
fn comparison_fn(keys_a: &Vec<(SqlValue, OrderDirection)>, keys_b: &Vec<(SqlValue, OrderDirection)>) -> (r: Ordering)
    ensures r == lex(keys_a@, keys_b@, 0)
{
    let n = if keys_a.len() < keys_b.len() { keys_a.len() } else { keys_b.len() };
    for i in 0..n
        invariant
            n == (if keys_a@.len() < keys_b@.len() { keys_a@.len() } else { keys_b@.len() }),
            lex(keys_a@, keys_b@, 0) == lex(keys_a@, keys_b@, i as int),
    {
        let (val_a, dir) = (&keys_a[i].0, &keys_a[i].1);
        let val_b = &keys_b[i].0;
        // Handle NULLs: always sort last regardless of ASC/DESC
        let cmp = match (val_a.is_null(), val_b.is_null()) {
            (true, true) => Ordering::Equal,
            (true, false) => return Ordering::Greater, // NULL always sorts last
            (false, true) => return Ordering::Less,    // non-NULL always sorts first
            (false, false) => {
                // Compare non-NULL values, respecting direction
                match dir {
                    OrderDirection::Asc => compare_sql_values(val_a, val_b),
                    OrderDirection::Desc => compare_sql_values(val_a, val_b).reverse(),
                }
            }
        };

        if cmp != Ordering::Equal {
            return cmp;
        }
    }
    Ordering::Equal
}
}
fn main() {}
