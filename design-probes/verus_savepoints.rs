use vstd::prelude::*;
verus! {

// ---------- preamble ----------
#[verifier::external_body]
pub struct Name { s: String }                 // R2: String savepoint names -> opaque with equality
impl Name {
    #[verifier::external_body]
    pub fn eq(&self, other: &Name) -> (r: bool) ensures r == (*self == *other) { self.s == other.s }
}
#[verifier::external_body]
pub struct Change { c: u8 }                   // R2: TransactionChange opaque
pub enum StorageError { TransactionError }

pub struct Savepoint { pub name: Name, pub snapshot_index: usize }

pub enum TransactionState {
    None,
    Active { id: u64, savepoints: Vec<Savepoint>, changes: Vec<Change> },   // R2: catalog/table snapshots dropped (not touched by these fns)
}
pub struct TransactionManager { pub transaction_state: TransactionState, pub next_transaction_id: u64 }

pub open spec fn wf(s: TransactionState) -> bool {
    match s {
        TransactionState::None => true,
        TransactionState::Active { id, savepoints, changes } =>
            forall|i: int| 0 <= i < savepoints@.len() ==> (#[trigger] savepoints@[i]).snapshot_index <= changes@.len(),
    }
}

// R4: savepoints.iter().position(|sp| sp.name == name)
#[verifier::external_body]
fn position_name(v: &Vec<Savepoint>, name: &Name) -> (r: Option<usize>)
    ensures match r {
        Some(i) => i < v@.len() && v@[i as int].name == *name && forall|j: int| 0 <= j < i ==> v@[j].name != *name,
        None => forall|j: int| 0 <= j < v@.len() ==> v@[j].name != *name,
    }
{ unimplemented!() }

// R4: changes.drain(i..).collect()
#[verifier::external_body]
fn drain_from(v: &mut Vec<Change>, i: usize) -> (r: Vec<Change>)
    requires i <= old(v)@.len()
    ensures r@ == old(v)@.subrange(i as int, old(v)@.len() as int), final(v)@ == old(v)@.subrange(0, i as int)
{ unimplemented!() }

impl TransactionManager {
    // ---------- extracted: create_savepoint ----------
    pub fn create_savepoint(&mut self, name: Name) -> (r: Result<(), StorageError>)
        requires wf(old(self).transaction_state)
        ensures wf(final(self).transaction_state),
    {
        match &mut self.transaction_state {
            TransactionState::None => {
                Err(StorageError::TransactionError)
            }
            TransactionState::Active { savepoints, changes, .. } => {
                let savepoint = Savepoint { name, snapshot_index: changes.len() };
                savepoints.push(savepoint);
                Ok(())
            }
        }
    }

    // ---------- extracted: rollback_to_savepoint ----------
    pub fn rollback_to_savepoint(&mut self, name: Name) -> (r: Result<Vec<Change>, StorageError>)
        requires wf(old(self).transaction_state)
        ensures wf(final(self).transaction_state),
    {
        match &mut self.transaction_state {
            TransactionState::None => {
                Err(StorageError::TransactionError)
            }
            TransactionState::Active { savepoints, changes, .. } => {
                // Find the savepoint
                let savepoint_idx = match position_name(savepoints, &name) { Some(i) => i, None => return Err(StorageError::TransactionError) };

                let snapshot_index = savepoints[savepoint_idx].snapshot_index;

                // Collect changes to undo (from snapshot_index to end)
                let changes_to_undo: Vec<Change> = drain_from(changes, snapshot_index);

                // Destroy later savepoints
                savepoints.truncate(savepoint_idx + 1);

                Ok(changes_to_undo)
            }
        }
    }
}
}
fn main() {}
