use vstd::prelude::*;
verus! {
// preamble: wide::i64x4 identity stub (trusted)
pub struct i64x4 { pub a: [i64; 4] }
impl i64x4 {
    #[verifier::external_body]
    pub fn from(x: [i64; 4]) -> (r: i64x4) ensures r.a == x { i64x4 { a: x } }
    #[verifier::external_body]
    pub fn into(self) -> (r: [i64; 4]) ensures r == self.a { self.a }
}

pub open spec fn ssum(s: Seq<i64>) -> int decreases s.len() {
    if s.len() == 0 { 0 } else { ssum(s.drop_last()) + s.last() as int }
}
pub open spec fn prefixes_fit(s: Seq<i64>) -> bool {
    forall|k: int| 0 <= k <= s.len() ==> i64::MIN <= #[trigger] ssum(s.subrange(0, k)) <= i64::MAX
}

proof fn ssum_step(s: Seq<i64>, k: int)
    requires 0 <= k < s.len()
    ensures ssum(s.subrange(0, k + 1)) == ssum(s.subrange(0, k)) + s[k] as int
{
    assert(s.subrange(0, k + 1).drop_last() =~= s.subrange(0, k));
}

// extracted: simd_sum_i64 (simd/aggregation.rs)
pub fn simd_sum_i64(column: &[i64]) -> (r: i64)
    requires prefixes_fit(column@)
    ensures r as int == ssum(column@)
{
    let mut sum = 0i64;

    // Process chunks of 4 elements with SIMD
    let chunks = column.len() / 4;
    for i in 0..chunks
        invariant
            chunks == column@.len() / 4,
            prefixes_fit(column@),
            sum as int == ssum(column@.subrange(0, 4 * i as int)),
    {
        let offset = i * 4;
        let values = i64x4::from([
            column[offset],
            column[offset + 1],
            column[offset + 2],
            column[offset + 3],
        ]);

        let arr: [i64; 4] = values.into();
        proof {
            ssum_step(column@, offset as int); ssum_step(column@, offset as int + 1);
            ssum_step(column@, offset as int + 2); ssum_step(column@, offset as int + 3);
        }
        sum += arr[0] + arr[1] + arr[2] + arr[3];
    }

    // Handle remainder elements with scalar fallback
    let remainder_start = chunks * 4;
    for i in remainder_start..column.len()
        invariant
            remainder_start <= column@.len(),
            prefixes_fit(column@),
            sum as int == ssum(column@.subrange(0, i as int)),
    {
        proof { ssum_step(column@, i as int); }
        sum += column[i];
    }
    proof { assert(column@.subrange(0, column@.len() as int) =~= column@); }

    sum
}
}
fn main() {}
