use vstd::prelude::*;
use std::collections::HashMap;
verus! {
#[verifier::external_body]
pub struct BytesMut { v: Vec<u8> }
impl View for BytesMut { type V = Seq<u8>; uninterp spec fn view(&self) -> Seq<u8>; }
pub open spec fn be32(x: int) -> Seq<u8> { seq![((x / 16777216) % 256) as u8, ((x / 65536) % 256) as u8, ((x / 256) % 256) as u8, (x % 256) as u8] }
pub open spec fn be16(x: int) -> Seq<u8> { seq![((x / 256) % 256) as u8, (x % 256) as u8] }
impl BytesMut {
    #[verifier::external_body] pub fn put_u8(&mut self, b: u8) ensures final(self)@ == old(self)@.push(b) { unimplemented!() }
    #[verifier::external_body] pub fn put_i32(&mut self, x: i32) ensures final(self)@ == old(self)@ + be32(if x >= 0 { x as int } else { x as int + 0x1_0000_0000 }) { unimplemented!() }
    #[verifier::external_body] pub fn put_i16(&mut self, x: i16) ensures final(self)@ == old(self)@ + be16(if x >= 0 { x as int } else { x as int + 0x1_0000 }) { unimplemented!() }
    #[verifier::external_body] pub fn put_slice(&mut self, s: &[u8]) ensures final(self)@ == old(self)@ + s@ { unimplemented!() }
}
pub uninterp spec fn utf8(s: Seq<char>) -> Seq<u8>;
pub assume_specification [String::len] (s: &String) -> (r: usize) ensures r == utf8(s@).len();
pub enum TransactionStatus { Idle, InTransaction, FailedTransaction }
impl TransactionStatus {
    pub fn as_byte(&self) -> u8 {
        match self {
            TransactionStatus::Idle => b'I',
            TransactionStatus::InTransaction => b'T',
            TransactionStatus::FailedTransaction => b'E',
        }
    }
}
pub struct FieldDescription { pub name: String, pub table_oid: i32, pub column_attr_number: i16, pub data_type_oid: i32, pub data_type_size: i16, pub type_modifier: i32, pub format_code: i16 }
pub enum BackendMessage {
    AuthenticationOk, AuthenticationCleartextPassword, AuthenticationMD5Password { salt: [u8; 4] },
    ParameterStatus { name: String, value: String }, BackendKeyData { process_id: i32, secret_key: i32 },
    ReadyForQuery { status: TransactionStatus }, RowDescription { fields: Vec<FieldDescription> },
    DataRow { values: Vec<Option<Vec<u8>>> }, CommandComplete { tag: String },
    ErrorResponse { fields: HashMap<u8, String> }, NoticeResponse { fields: HashMap<u8, String> }, EmptyQueryResponse,
}
impl BackendMessage {
    /// Encode a backend message to bytes
    pub fn encode(&self, buf: &mut BytesMut) {
        match self {
            BackendMessage::AuthenticationOk => {
                buf.put_u8(b'R'); // Authentication
                buf.put_i32(8); // Length including self
                buf.put_i32(0); // AuthenticationOk
            }

            BackendMessage::AuthenticationCleartextPassword => {
                buf.put_u8(b'R');
                buf.put_i32(8);
                buf.put_i32(3); // AuthenticationCleartextPassword
            }

            BackendMessage::AuthenticationMD5Password { salt } => {
                buf.put_u8(b'R');
                buf.put_i32(12);
                buf.put_i32(5); // AuthenticationMD5Password
                buf.put_slice(salt);
            }

            BackendMessage::ParameterStatus { name, value } => {
                buf.put_u8(b'S'); // ParameterStatus
                let len = 4 + name.len() + 1 + value.len() + 1;
                buf.put_i32(len as i32);
                put_cstring(buf, name);
                put_cstring(buf, value);
            }

            BackendMessage::BackendKeyData {
                process_id,
                secret_key,
            } => {
                buf.put_u8(b'K'); // BackendKeyData
                buf.put_i32(12);
                buf.put_i32(*process_id);
                buf.put_i32(*secret_key);
            }

            BackendMessage::ReadyForQuery { status } => {
                buf.put_u8(b'Z'); // ReadyForQuery
                buf.put_i32(5);
                buf.put_u8(status.as_byte());
            }

            BackendMessage::RowDescription { fields } => {
                buf.put_u8(b'T'); // RowDescription

                // Calculate total length
                let mut len = 4 + 2; // length + field count
                for field in fields {
                    len += field.name.len() + 1 + 18; // name + null + 6 i32/i16 fields
                }

                buf.put_i32(len as i32);
                buf.put_i16(fields.len() as i16);

                for field in fields {
                    put_cstring(buf, &field.name);
                    buf.put_i32(field.table_oid);
                    buf.put_i16(field.column_attr_number);
                    buf.put_i32(field.data_type_oid);
                    buf.put_i16(field.data_type_size);
                    buf.put_i32(field.type_modifier);
                    buf.put_i16(field.format_code);
                }
            }

            BackendMessage::DataRow { values } => {
                buf.put_u8(b'D'); // DataRow

                // Calculate total length
                let mut len = 4 + 2; // length + field count
                for value in values {
                    len += 4; // length field
                    if let Some(v) = value {
                        len += v.len();
                    }
                }

                buf.put_i32(len as i32);
                buf.put_i16(values.len() as i16);

                for value in values {
                    match value {
                        Some(v) => {
                            buf.put_i32(v.len() as i32);
                            buf.put_slice(v);
                        }
                        None => {
                            buf.put_i32(-1); // NULL value
                        }
                    }
                }
            }

            BackendMessage::CommandComplete { tag } => {
                buf.put_u8(b'C'); // CommandComplete
                let len = 4 + tag.len() + 1;
                buf.put_i32(len as i32);
                put_cstring(buf, tag);
            }

            BackendMessage::ErrorResponse { fields } => {
                buf.put_u8(b'E'); // ErrorResponse
                encode_notice_or_error(buf, fields);
            }

            BackendMessage::NoticeResponse { fields } => {
                buf.put_u8(b'N'); // NoticeResponse
                encode_notice_or_error(buf, fields);
            }

            BackendMessage::EmptyQueryResponse => {
                buf.put_u8(b'I'); // EmptyQueryResponse
                buf.put_i32(4);
            }
        }
    }
}

/// Write a null-terminated C string
fn put_cstring(buf: &mut BytesMut, s: &str) {
    buf.put_slice(s.as_bytes());
    buf.put_u8(0);
}

/// Encode error or notice response fields
#[verifier::external_body]
fn encode_notice_or_error(buf: &mut BytesMut, fields: &HashMap<u8, String>) { unimplemented!() }


}
fn main(){}
