use vstd::prelude::*;
verus! {
pub enum SqlValue { Null, Integer(i64) }
impl SqlValue { pub fn is_null(&self) -> (r: bool) ensures r == (*self is Null) { matches!(self, SqlValue::Null) } }
#[verifier::external_body] pub struct ValSet { s: Vec<u8> }
impl View for ValSet { type V = Set<SqlValue>; uninterp spec fn view(&self) -> Set<SqlValue>; }
pub enum AggregateAccumulator {
    Count { count: i64, distinct: bool, seen: Option<ValSet> },
    Min { value: Option<SqlValue>, distinct: bool, seen: Option<ValSet> },
}
impl AggregateAccumulator {
    pub fn accumulate(&mut self, value: &SqlValue)
        requires (*old(self)) is Count ==> (*old(self))->Count_count < i64::MAX && !(*old(self))->Count_distinct
        ensures
            ((*old(self)) is Count) ==> ((*final(self)) is Count && (*final(self))->Count_count == (if *value is Null { (*old(self))->Count_count as int } else { (*old(self))->Count_count + 1 })),
    {
        match self {
            // COUNT - counts non-NULL values
            AggregateAccumulator::Count { ref mut count, distinct, seen } => {
                if value.is_null() {
                    return; // Skip NULL values
                }

                if *distinct {
                    return;
                } else {
                    *count += 1;
                }
            }
            _ => {}
        }
    }
}
}
fn main() {}
