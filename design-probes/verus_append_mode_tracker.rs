use vstd::prelude::*;
verus! {
// R2: Vec<SqlValue> primary key -> opaque `Key` with uninterpreted total order
#[verifier::external_body]
pub struct Key { k: Vec<u8> }
pub uninterp spec fn key_le(a: Key, b: Key) -> bool;
pub open spec fn key_lt(a: Key, b: Key) -> bool { key_le(a, b) && a != b }
#[verifier::external_body]
pub proof fn key_total_order()
    ensures
        forall|a: Key| key_le(a, a),
        forall|a: Key, b: Key| key_le(a, b) || key_le(b, a),
        forall|a: Key, b: Key| key_le(a, b) && key_le(b, a) ==> a == b,
        forall|a: Key, b: Key, c: Key| key_le(a, b) && key_le(b, c) ==> key_le(a, c),
{}
// R4: `pk_values > last_pk.as_slice()`
#[verifier::external_body]
fn key_gt(a: &Key, b: &Key) -> (r: bool) ensures r == key_lt(*b, *a) { unimplemented!() }
// R4: `pk_values.to_vec()`
#[verifier::external_body]
fn key_clone(a: &Key) -> (r: Key) ensures r == *a { unimplemented!() }

const APPEND_MODE_THRESHOLD: usize = 3;

pub struct AppendModeTracker {
    pub last_pk_value: Option<Key>,
    pub append_mode: bool,
    pub append_streak: usize,
}

// the invariant the PK-check shortcut relies on: while active, no stored key exceeds last_pk
pub open spec fn inv(t: AppendModeTracker, keys: Set<Key>) -> bool {
    t.append_mode ==> (t.last_pk_value is Some && forall|k: Key| keys.contains(k) ==> key_le(k, t.last_pk_value.unwrap()))
}

impl AppendModeTracker {
    pub fn update(&mut self, pk_values: &Key, Ghost(keys): Ghost<Set<Key>>)
        requires inv(*old(self), keys), old(self).append_streak < usize::MAX
        ensures inv(*final(self), keys.insert(*pk_values))
    {
        proof { key_total_order(); }
        if let Some(last_pk) = &self.last_pk_value {
            // Check if current PK is greater than last PK (sequential)
            if key_gt(pk_values, last_pk) {
                self.append_streak += 1;
                // Enable append mode after threshold consecutive sequential inserts
                if self.append_streak >= APPEND_MODE_THRESHOLD {
                    self.append_mode = true;
                }
            } else {
                // Non-sequential insert - reset append mode
                self.append_mode = false;
                self.append_streak = 0;
            }
        }
        // Update last PK value for next comparison
        self.last_pk_value = Some(key_clone(pk_values));
    }
}
}
fn main() {}
