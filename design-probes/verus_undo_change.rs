use vstd::prelude::*;
use vstd::multiset::Multiset;
verus! {
#[verifier::external_body] pub struct Str { s: String }
impl Clone for Str { #[verifier::external_body] fn clone(&self) -> (r: Str) ensures r == *self { unimplemented!() } }
#[verifier::external_body] pub struct Row { r: Vec<u8> }
pub enum StorageError { TableNotFound(Str), RowNotFound }

// abstract table: multiset of rows
#[verifier::external_body] pub struct Table { t: Vec<u8> }
impl View for Table { type V = Multiset<Row>; uninterp spec fn view(&self) -> Multiset<Row>; }
impl Table {
    #[verifier::external_body]
    pub fn remove_row(&mut self, target_row: &Row) -> (r: Result<(), StorageError>)
        ensures r is Ok ==> old(self)@.count(*target_row) > 0 && final(self)@ == old(self)@.remove(*target_row),
                r is Err ==> final(self)@ == old(self)@
    { unimplemented!() }
    #[verifier::external_body]
    pub fn insert(&mut self, row: Row) -> (r: Result<(), StorageError>)
        ensures r is Ok ==> final(self)@ == old(self)@.insert(row), r is Err ==> final(self)@ == old(self)@
    { unimplemented!() }
}

pub enum TransactionChange {
    Insert { table_name: Str, row: Row },
    Update { table_name: Str, old_row: Row, new_row: Row },
    Delete { table_name: Str, row: Row },
}

pub struct Database { pub tables: Vec<Table> }
impl Database {
    #[verifier::external_body]
    pub fn get_table_mut(&mut self, name: &Str) -> (r: Option<&mut Table>) { unimplemented!() }

    fn undo_change(&mut self, change: TransactionChange) -> Result<(), StorageError> {
        match change {
            TransactionChange::Insert { table_name, row } => {
                let table = match self.get_table_mut(&table_name) { Some(t) => t, None => return Err(StorageError::TableNotFound(table_name.clone())) };
                table.remove_row(&row)?;
            }
            TransactionChange::Update { table_name, old_row, new_row: _ } => {
                let table = match self.get_table_mut(&table_name) { Some(t) => t, None => return Err(StorageError::TableNotFound(table_name.clone())) };
                table.remove_row(&old_row)?;
                table.insert(old_row)?;
            }
            TransactionChange::Delete { table_name, row } => {
                let table = match self.get_table_mut(&table_name) { Some(t) => t, None => return Err(StorageError::TableNotFound(table_name.clone())) };
                table.insert(row)?;
            }
        }
        Ok(())
    }
}
}
fn main() {}
