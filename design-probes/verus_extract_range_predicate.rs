#![feature(allocator_api)]
#![feature(sized_hierarchy)]
use vstd::prelude::*;
verus! {
// ---------------- preamble ----------------
#[verifier::external_body]
pub struct Str { s: String }
#[verifier::external_body]
pub struct Opaque { x: u8 }

// R2: SqlValue with payloads abstracted to an opaque ordered scalar `Val`
#[verifier::external_body]
pub struct Val { v: i64 }
pub enum SqlValue { Null, V(Val) }
impl Clone for SqlValue {
    #[verifier::external_body]
    fn clone(&self) -> (r: SqlValue) ensures r == *self { unimplemented!() }
}
pub uninterp spec fn val_le(a: Val, b: Val) -> bool;
pub open spec fn val_lt(a: Val, b: Val) -> bool { val_le(a, b) && a != b }

pub enum BinaryOperator { Plus, Minus, Multiply, Divide, IntegerDivide, Modulo, Equal, NotEqual, LessThan, LessThanOrEqual, GreaterThan, GreaterThanOrEqual, And, Or, Concat }

// real enum text (vibesql-ast/src/expression.rs), variants outside the unit's closure cut to Opaque payloads
pub enum Expression {
    Literal(SqlValue),
    ColumnRef { table: Option<Str>, column: Str },
    BinaryOp { op: BinaryOperator, left: Box<Expression>, right: Box<Expression> },
    UnaryOp { op: Opaque, expr: Box<Expression> },
    IsNull { expr: Box<Expression>, negated: bool },
    Wildcard,
    InList { expr: Box<Expression>, values: Vec<Expression>, negated: bool },
    Between { expr: Box<Expression>, low: Box<Expression>, high: Box<Expression>, negated: bool, symmetric: bool },
    Other(Opaque),
}

pub struct RangePredicate {
    pub start: Option<SqlValue>,
    pub end: Option<SqlValue>,
    pub inclusive_start: bool,
    pub inclusive_end: bool,
}

pub uninterp spec fn str_is(s: Str, name: &str) -> bool;
#[verifier::external_body]
fn str_eq(a: &Str, b: &str) -> (r: bool) ensures r == str_is(*a, b) { unimplemented!() }

// extracted: selection.rs::is_column_reference  (R: `column == column_name` -> str_eq)
fn is_column_reference(expr: &Expression, column_name: &str) -> (r: bool)
    ensures r == is_col(*expr, column_name)
{
    match expr {
        Expression::ColumnRef { column, .. } => str_eq(column, column_name),
        _ => false,
    }
}



// ---------------- spec: semantics of the predicate on a non-NULL column value ----------------
pub open spec fn cmp_sem(op: BinaryOperator, a: Val, b: Val) -> bool {
    match op {
        BinaryOperator::Equal => a == b,
        BinaryOperator::LessThan => val_lt(a, b),
        BinaryOperator::LessThanOrEqual => val_le(a, b),
        BinaryOperator::GreaterThan => val_lt(b, a),
        BinaryOperator::GreaterThanOrEqual => val_le(b, a),
        _ => false,
    }
}
pub open spec fn is_col(e: Expression, c: &str) -> bool { e matches Expression::ColumnRef { column, .. } && str_is(column, c) }

// TRUE-set of e as a predicate on column c having value v (None = not in the modelled fragment)
pub open spec fn holds(e: Expression, c: &str, v: Val) -> Option<bool>
    decreases e
{
    match e {
        Expression::BinaryOp { op: BinaryOperator::And, left, right } =>
            match (holds(*left, c, v), holds(*right, c, v)) { (Some(a), Some(b)) => Some(a && b), _ => None },
        Expression::BinaryOp { op, left, right } =>
            if is_col(*left, c) && (*right matches Expression::Literal(SqlValue::V(l))) { Some(cmp_sem(op, v, (*right)->Literal_0->V_0)) }
            else if is_col(*right, c) && (*left matches Expression::Literal(SqlValue::V(l))) { Some(cmp_sem(op, (*left)->Literal_0->V_0, v)) }
            else { None },
        _ => None,
    }
}
pub open spec fn in_range(r: RangePredicate, v: Val) -> bool {
    &&& (r.start matches Some(SqlValue::V(s)) ==> (if r.inclusive_start { val_le(s, v) } else { val_lt(s, v) }))
    &&& (r.end matches Some(SqlValue::V(e)) ==> (if r.inclusive_end { val_le(v, e) } else { val_lt(v, e) }))
    &&& !(r.start matches Some(SqlValue::Null)) && !(r.end matches Some(SqlValue::Null))
}

#[verifier::external_body]
pub proof fn val_total_order()
    ensures
        forall|a: Val| val_le(a, a),
        forall|a: Val, b: Val| val_le(a, b) || val_le(b, a),
        forall|a: Val, b: Val| val_le(a, b) && val_le(b, a) ==> a == b,
        forall|a: Val, b: Val, c: Val| val_le(a, b) && val_le(b, c) ==> val_le(a, c),
{}

// ---------------- extracted: predicate.rs::extract_range_predicate ----------------
fn extract_range_predicate(expr: &Expression, column_name: &str) -> (r: Option<RangePredicate>)
    ensures
        // soundness: whatever satisfies the predicate is inside the extracted range
        forall|v: Val| (r matches Some(rp) && holds(*expr, column_name, v) == Some(true)) ==> in_range(r.unwrap(), v),
    decreases expr
{
    proof { val_total_order(); }

    match expr {
        Expression::BinaryOp { left, op, right } => {
            match op {
                // Handle equality: col = value
                BinaryOperator::Equal => {
                    // Check if left side is our column and right side is a literal
                    if is_column_reference(left, column_name) {
                        if let Expression::Literal(value) = &**right {
                            // NULL comparisons always return no rows - can't optimize with index
                            if matches!(value, SqlValue::Null) {
                                return None;
                            }
                            // Equal is a range with same start and end, both inclusive
                            return Some(RangePredicate {
                                start: Some(value.clone()),
                                end: Some(value.clone()),
                                inclusive_start: true,
                                inclusive_end: true,
                            });
                        }
                    }
                    // Also handle reverse: value = col
                    if is_column_reference(right, column_name) {
                        if let Expression::Literal(value) = &**left {
                            // NULL comparisons always return no rows - can't optimize with index
                            if matches!(value, SqlValue::Null) {
                                return None;
                            }
                            return Some(RangePredicate {
                                start: Some(value.clone()),
                                end: Some(value.clone()),
                                inclusive_start: true,
                                inclusive_end: true,
                            });
                        }
                    }
                }
                // Handle simple comparisons: col > value, col < value, etc.
                BinaryOperator::GreaterThan
                | BinaryOperator::GreaterThanOrEqual
                | BinaryOperator::LessThan
                | BinaryOperator::LessThanOrEqual => {
                    // Check if left side is our column and right side is a literal
                    if is_column_reference(left, column_name) {
                        if let Expression::Literal(value) = &**right {
                            // NULL comparisons always return no rows - can't optimize with index
                            if matches!(value, SqlValue::Null) {
                                return None;
                            }
                            return Some(match op {
                                BinaryOperator::GreaterThan => RangePredicate {
                                    start: Some(value.clone()),
                                    end: None,
                                    inclusive_start: false,
                                    inclusive_end: false,
                                },
                                BinaryOperator::GreaterThanOrEqual => RangePredicate {
                                    start: Some(value.clone()),
                                    end: None,
                                    inclusive_start: true,
                                    inclusive_end: false,
                                },
                                BinaryOperator::LessThan => RangePredicate {
                                    start: None,
                                    end: Some(value.clone()),
                                    inclusive_start: false,
                                    inclusive_end: false,
                                },
                                BinaryOperator::LessThanOrEqual => RangePredicate {
                                    start: None,
                                    end: Some(value.clone()),
                                    inclusive_start: false,
                                    inclusive_end: true,
                                },
                                _ => unreachable!(),
                            });
                        }
                    }
                    // Check if right side is our column and left side is a literal (flipped comparison)
                    else if is_column_reference(right, column_name) {
                        if let Expression::Literal(value) = &**left {
                            // NULL comparisons always return no rows - can't optimize with index
                            if matches!(value, SqlValue::Null) {
                                return None;
                            }
                            return Some(match op {
                                // Flip the comparison: value > col means col < value
                                BinaryOperator::GreaterThan => RangePredicate {
                                    start: None,
                                    end: Some(value.clone()),
                                    inclusive_start: false,
                                    inclusive_end: false,
                                },
                                BinaryOperator::GreaterThanOrEqual => RangePredicate {
                                    start: None,
                                    end: Some(value.clone()),
                                    inclusive_start: false,
                                    inclusive_end: true,
                                },
                                BinaryOperator::LessThan => RangePredicate {
                                    start: Some(value.clone()),
                                    end: None,
                                    inclusive_start: false,
                                    inclusive_end: false,
                                },
                                BinaryOperator::LessThanOrEqual => RangePredicate {
                                    start: Some(value.clone()),
                                    end: None,
                                    inclusive_start: true,
                                    inclusive_end: false,
                                },
                                _ => unreachable!(),
                            });
                        }
                    }
                }
                // Handle AND: can combine range predicates (e.g., col > 10 AND col < 20)
                BinaryOperator::And => {
                    let left_range = extract_range_predicate(left, column_name);
                    let right_range = extract_range_predicate(right, column_name);

                    // Merge ranges if both sides have predicates on our column
                    match (left_range, right_range) {
                        (Some(mut l), Some(r)) => {
                            // Merge the bounds
                            if l.start.is_none() {
                                l.start = r.start;
                                l.inclusive_start = r.inclusive_start;
                            }
                            if l.end.is_none() {
                                l.end = r.end;
                                l.inclusive_end = r.inclusive_end;
                            }
                            return Some(l);
                        }
                        (Some(l), None) => return Some(l),
                        (None, Some(r)) => return Some(r),
                        (None, None) => {}
                    }
                }
                _ => {}
            }
        }
        // Handle BETWEEN: col BETWEEN low AND high
        Expression::Between { expr: col_expr, low, high, negated, .. } => {
            if !negated && is_column_reference(col_expr, column_name) {
                if let (Expression::Literal(low_val), Expression::Literal(high_val)) =
                    (&**low, &**high)
                {
                    // NULL comparisons always return no rows - can't optimize with index
                    if matches!(low_val, SqlValue::Null) || matches!(high_val, SqlValue::Null) {
                        return None;
                    }
                    return Some(RangePredicate {
                        start: Some(low_val.clone()),
                        end: Some(high_val.clone()),
                        inclusive_start: true,
                        inclusive_end: true,
                    });
                }
            }
        }
        _ => {}
    }

    None
}
}
fn main(){}
