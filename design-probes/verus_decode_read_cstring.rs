use vstd::prelude::*;
verus! {

// ---------------- preamble: BytesMut stub (assumed contracts) ----------------
#[verifier::external_body]
pub struct BytesMut { v: Vec<u8> }
impl View for BytesMut { type V = Seq<u8>; uninterp spec fn view(&self) -> Seq<u8>; }

pub open spec fn be_i32(s: Seq<u8>) -> int
    recommends s.len() == 4
{
    let u = (s[0] as int) * 16777216 + (s[1] as int) * 65536 + (s[2] as int) * 256 + (s[3] as int);
    if u >= 0x8000_0000 { u - 0x1_0000_0000 } else { u }
}

impl BytesMut {
    #[verifier::external_body]
    pub fn len(&self) -> (r: usize) ensures r == self@.len() { unimplemented!() }
    #[verifier::external_body]
    pub fn at(&self, i: usize) -> (r: u8) requires i < self@.len() ensures r == self@[i as int] { unimplemented!() }
    #[verifier::external_body]
    pub fn advance(&mut self, n: usize) requires n <= old(self)@.len() ensures final(self)@ == old(self)@.subrange(n as int, old(self)@.len() as int) { unimplemented!() }
    #[verifier::external_body]
    pub fn get_i32(&mut self) -> (r: i32) requires old(self)@.len() >= 4
        ensures final(self)@ == old(self)@.subrange(4, old(self)@.len() as int), r as int == be_i32(old(self)@.subrange(0, 4)) { unimplemented!() }
    #[verifier::external_body]
    pub fn split_to(&mut self, n: usize) -> (r: BytesMut) requires n <= old(self)@.len()
        ensures r@ == old(self)@.subrange(0, n as int), final(self)@ == old(self)@.subrange(n as int, old(self)@.len() as int) { unimplemented!() }
    // R4: buf.iter().position(|&b| b == 0)
    #[verifier::external_body]
    pub fn position_zero(&self) -> (r: Option<usize>)
        ensures match r {
            Some(i) => i < self@.len() && self@[i as int] == 0 && forall|j: int| 0 <= j < i ==> self@[j] != 0,
            None => forall|j: int| 0 <= j < self@.len() ==> self@[j] != 0,
        } { unimplemented!() }
    #[verifier::external_body]
    pub fn to_vec(&self) -> (r: Vec<u8>) ensures r@ == self@ { unimplemented!() }
}

#[verifier::external_body]
fn i32_from_be_bytes(x: [u8; 4]) -> (r: i32) ensures r as int == be_i32(x@) { i32::from_be_bytes(x) }

pub enum ProtocolError { InvalidMessageType(u8), InvalidString }

#[verifier::external_body]
fn string_from_utf8(v: Vec<u8>) -> (r: Result<String, ()>) { unimplemented!() }

pub enum FrontendMessage { Password { password: String }, Query { query: String }, Terminate, SSLRequest }

// ---------------- extracted: read_cstring ----------------
fn read_cstring(buf: &mut BytesMut) -> (r: Result<String, ProtocolError>)
    ensures
        r.is_ok() ==> exists|n: int| 0 <= n < old(buf)@.len() && old(buf)@[n] == 0 && final(buf)@ == old(buf)@.subrange(n + 1, old(buf)@.len() as int),
{
    let null_pos = match buf.position_zero() { Some(p) => p, None => return Err(ProtocolError::InvalidString) };

    let bytes = buf.split_to(null_pos);
    buf.advance(1); // skip null byte

    match string_from_utf8(bytes.to_vec()) { Ok(s) => Ok(s), Err(_) => Err(ProtocolError::InvalidString) }
}

// ---------------- extracted: FrontendMessage::decode ----------------
fn decode(buf: &mut BytesMut) -> (r: Result<Option<FrontendMessage>, ProtocolError>)
    ensures
        // framing: on Ok(Some) exactly the declared frame is consumed
        (r matches Ok(Some(_))) ==> {
            &&& old(buf)@.len() >= 5
            &&& be_i32(old(buf)@.subrange(1, 5)) >= 4
            &&& final(buf)@ == old(buf)@.subrange(1 + be_i32(old(buf)@.subrange(1, 5)), old(buf)@.len() as int)
        },
        (r matches Ok(None)) ==> final(buf)@ == old(buf)@,
{
    // Check if we have enough bytes for the header
    if buf.len() < 5 {
        return Ok(None);
    }

    // Peek at message type
    let msg_type = buf.at(0);

    // Get message length (excluding type byte, including length field itself)
    let len = i32_from_be_bytes([buf.at(1), buf.at(2), buf.at(3), buf.at(4)]) as usize;

    // Check if we have the full message
    if buf.len() < 1 + len {
        return Ok(None);
    }

    // Consume the message type
    buf.advance(1);

    // Decode based on message type
    match msg_type {
        81u8 => {
            // Query message
            buf.advance(4); // length
            let query = read_cstring(buf)?;
            Ok(Some(FrontendMessage::Query { query }))
        }

        112u8 => {
            // Password message
            buf.advance(4); // length
            let password = read_cstring(buf)?;
            Ok(Some(FrontendMessage::Password { password }))
        }

        88u8 => {
            // Terminate message
            buf.advance(4); // length
            Ok(Some(FrontendMessage::Terminate))
        }

        _ => Err(ProtocolError::InvalidMessageType(msg_type)),
    }
}
}
fn main() {}
