-- Run: /repo/target/debug/vibesql -f sql_confirmed_defects.sql   (pinned commit, 2026-09-21)
-- Each block reproduces, through the real CLI, a defect that a contract unit of DESIGN.md §5 predicts.

-- [C10 / K-append, finding #13] duplicate PRIMARY KEY accepted via the INSERT..SELECT bulk-transfer path
CREATE TABLE t (id INTEGER PRIMARY KEY, v INTEGER);
INSERT INTO t VALUES (100, 1);
INSERT INTO t VALUES (1, 1);
INSERT INTO t VALUES (2, 1);
INSERT INTO t VALUES (3, 1);
INSERT INTO t VALUES (4, 1);
CREATE TABLE src (id INTEGER NOT NULL, v INTEGER);
INSERT INTO src VALUES (100, 2);
INSERT INTO t SELECT * FROM src;               -- observed: succeeds ("1 rows")
SELECT COUNT(*) FROM t WHERE id = 100;         -- observed: 2   (expected: statement 9 rejected, count 1)

-- [C09 / D-pk + E-eq, finding #12] DELETE's primary-key fast path misses rows that SELECT finds
CREATE TABLE d (id BIGINT PRIMARY KEY, v INTEGER);
INSERT INTO d VALUES (1, 10);
INSERT INTO d VALUES (2, 20);
SELECT COUNT(*) FROM d WHERE id = 2;           -- observed: 1
DELETE FROM d WHERE id = 2;                    -- observed: "0 rows"
SELECT COUNT(*) FROM d;                        -- observed: 2   (expected: 1)

-- [C03/C07 / A-col-scalar, finding #11] columnar aggregates over NULLs
CREATE TABLE z (a INTEGER);
INSERT INTO z VALUES (NULL);
INSERT INTO z VALUES (NULL);
SELECT SUM(a), AVG(a), MIN(a), COUNT(a), COUNT(*) FROM z;   -- observed: 0.0, 0.0, NULL, 2, 2  (expected: NULL, NULL, NULL, 0, 2)
CREATE TABLE n (a INTEGER, b INTEGER);
INSERT INTO n VALUES (NULL, 1);
INSERT INTO n VALUES (5, 2);
INSERT INTO n VALUES (1, 3);
SELECT SUM(a), AVG(a), COUNT(a), COUNT(*) FROM n;           -- observed: 6.0, 3.0, 2, 2  (expected COUNT(*) = 3)

-- [C24 / E-arith, finding #3] integer overflow panics the process (debug build; wraps in release)
SELECT 9223372036854775807 + 1;                -- observed: panic at arithmetic/addition.rs:26:31
