use vstd::prelude::*;
verus! {
// R2: str/String -> opaque Str with Seq<char> view; methods carry the std-documented specs
#[verifier::external_body] pub struct Str { s: String }
impl View for Str { type V = Seq<char>; uninterp spec fn view(&self) -> Seq<char>; }
pub open spec fn is_prefix(p: Seq<char>, s: Seq<char>) -> bool { p.len() <= s.len() && s.subrange(0, p.len() as int) == p }
impl Str {
    #[verifier::external_body]
    pub fn strip_prefix(&self, p: &Str) -> (r: Option<&Str>)
        ensures match r { Some(t) => is_prefix(p@, self@) && t@ == self@.subrange(p@.len() as int, self@.len() as int), None => !is_prefix(p@, self@) }
    { unimplemented!() }
    #[verifier::external_body]
    pub fn eq(&self, o: &Str) -> (r: bool) ensures r == (self@ == o@) { unimplemented!() }
}
// R: string literals
pub uninterp spec fn lit_md5_brace() -> Seq<char>;   // "{MD5}"
pub uninterp spec fn lit_md5() -> Seq<char>;         // "md5"
#[verifier::external_body] fn lit_a() -> (r: &'static Str) ensures r@ == lit_md5_brace() { unimplemented!() }
#[verifier::external_body] fn lit_b() -> (r: &'static Str) ensures r@ == lit_md5() { unimplemented!() }

// uninterpreted digest (compute_md5_password) and abstract store
pub uninterp spec fn digest(pw: Seq<char>, user: Seq<char>, salt: Seq<u8>) -> Seq<char>;
#[verifier::external_body]
fn compute_md5_password(password: &Str, username: &Str, salt: &[u8; 4]) -> (r: Str) ensures r@ == digest(password@, username@, salt@) { unimplemented!() }

#[verifier::external_body] pub struct PasswordStore { m: Vec<u8> }
impl PasswordStore {
    pub uninterp spec fn store(&self) -> Map<Seq<char>, Seq<char>>;
    #[verifier::external_body]
    pub fn get_password(&self, username: &Str) -> (r: Option<&Str>)
        ensures match r { Some(s) => self.store().contains_key(username@) && s@ == self.store()[username@], None => !self.store().contains_key(username@) }
    { unimplemented!() }

    // extracted: verify_md5  (R10 drops warn!)
    pub fn verify_md5(&self, username: &Str, password_hash: &Str, salt: &[u8; 4]) -> (r: bool)
        ensures
            // the property: accept iff user has a {MD5} secret and response == "md5" ++ digest
            r == (self.store().contains_key(username@)
                  && is_prefix(lit_md5_brace(), self.store()[username@])
                  && password_hash@ == lit_md5() + digest(self.store()[username@].subrange(lit_md5_brace().len() as int, self.store()[username@].len() as int), username@, salt@)),
    {
        if let Some(stored) = self.get_password(username) {
            if let Some(md5_password) = stored.strip_prefix(lit_a()) {
                // MD5 format storage - we can verify MD5 wire protocol
                let expected = compute_md5_password(md5_password, username, salt);
                let hash_to_compare = password_hash.strip_prefix(lit_b()).unwrap_or(password_hash);
                return expected.eq(hash_to_compare);
            } else {
            }
        }
        false
    }
}
}
fn main() {}
