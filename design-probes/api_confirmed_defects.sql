-- Run with the scratch runner in api_runner/ (parses each line with vibesql_parser and dispatches to the
-- real executors; CREATE INDEX and transactions are not reachable through the CLI):
--   cd api_runner && cp /repo/Cargo.lock . && mkdir src && mv main.rs src/ && RUSTC_WRAPPER= cargo build --offline && ./target/debug/runner ../api_confirmed_defects.sql
-- Observed at the pinned commit, 2026-09-21.

-- [C02/C06 / E-cmp-paths] the scan path and the index path disagree on a float comparison
CREATE TABLE fl (x DOUBLE PRECISION, y INTEGER);
INSERT INTO fl VALUES (1.0, 1);
INSERT INTO fl VALUES (1.0000000000000002, 2);
INSERT INTO fl VALUES (1.5, 3);
SELECT y FROM fl WHERE x > 1.0;
--   observed without index: [3]        (1.0000000000000002 > 1.0 is dropped: columnar/filter.rs compare_values uses EPSILON = 1e-9)
CREATE INDEX fl_x ON fl (x);
SELECT y FROM fl WHERE x > 1.0;
--   observed with index:    [2] [3]

-- [C08/C02 / S-idxorder] index-provided ORDER BY puts NULLs first; the sort path puts them last
CREATE TABLE n (a INTEGER, b INTEGER);
INSERT INTO n VALUES (NULL, 1);
INSERT INTO n VALUES (5, 2);
INSERT INTO n VALUES (1, 3);
SELECT b FROM n ORDER BY a;
--   observed without index: [3] [2] [1]   (NULL last)
CREATE INDEX n_a ON n (a);
SELECT b FROM n ORDER BY a;
--   observed with index:    [1] [3] [2]   (NULL first)

-- [C01 / literal typing + comparison through f64] adjacent integers above 2^53
CREATE TABLE big (k BIGINT, v INTEGER);
INSERT INTO big VALUES (9007199254740992, 1);
INSERT INTO big VALUES (9007199254740993, 2);
SELECT v FROM big WHERE k > 9007199254740992;
--   observed: no rows   (expected [2])
