-- Run with the scratch runner in api_runner/ (parses each line with vibesql_parser and dispatches to the
-- real executors; CREATE INDEX and transactions are not reachable through the CLI):
--   cd api_runner && cp /repo/Cargo.lock . && mkdir src && mv main.rs src/ && RUSTC_WRAPPER= cargo build --offline && ./target/debug/runner ../api_confirmed_defects.sql
-- Observed at the pinned commit, 2026-09-21.

-- [C02/C06 / E-cmp-paths] the scan path and the index path disagree on a float comparison
CREATE TABLE fl (x DOUBLE PRECISION, y INTEGER);
INSERT INTO fl VALUES (1.0, 1);
INSERT INTO fl VALUES (1.0000000000000002, 2);
INSERT INTO fl VALUES (1.5, 3);
SELECT y FROM fl WHERE x > 1.0;
--   observed without index: [3]        (1.0000000000000002 > 1.0 is dropped: columnar/filter.rs compare_values uses EPSILON = 1e-9)
CREATE INDEX fl_x ON fl (x);
SELECT y FROM fl WHERE x > 1.0;
--   observed with index:    [2] [3]

-- [C08/C02 / S-idxorder] index-provided ORDER BY puts NULLs first; the sort path puts them last
CREATE TABLE n (a INTEGER, b INTEGER);
INSERT INTO n VALUES (NULL, 1);
INSERT INTO n VALUES (5, 2);
INSERT INTO n VALUES (1, 3);
SELECT b FROM n ORDER BY a;
--   observed without index: [3] [2] [1]   (NULL last)
CREATE INDEX n_a ON n (a);
SELECT b FROM n ORDER BY a;
--   observed with index:    [1] [3] [2]   (NULL first)

-- [C01 / literal typing + comparison through f64] adjacent integers above 2^53
CREATE TABLE big (k BIGINT, v INTEGER);
INSERT INTO big VALUES (9007199254740992, 1);
INSERT INTO big VALUES (9007199254740993, 2);
SELECT v FROM big WHERE k > 9007199254740992;
--   observed: no rows   (expected [2])
-- [C14 #16] UPDATE and DELETE are not recorded: ROLLBACK TO SAVEPOINT fails with RowNotFound and leaves [2] (expected [1])
CREATE TABLE s (a INTEGER);
BEGIN;
INSERT INTO s VALUES (1);
SAVEPOINT sp1;
UPDATE s SET a = 2 WHERE a = 1;
INSERT INTO s VALUES (3);
DELETE FROM s WHERE a = 3;
SELECT a FROM s;
ROLLBACK TO SAVEPOINT sp1;
SELECT a FROM s;
COMMIT;
-- [C14 #15] duplicate savepoint name: rollback goes to the FIRST x, leaving [1] (SQL:1999: the latest, leaving [1] [2])
CREATE TABLE q (a INTEGER);
BEGIN;
INSERT INTO q VALUES (1);
SAVEPOINT x;
INSERT INTO q VALUES (2);
SAVEPOINT x;
INSERT INTO q VALUES (3);
ROLLBACK TO SAVEPOINT x;
SELECT a FROM q;
COMMIT;
-- [C13 #25, not claimed] after ROLLBACK the table is restored to [(1,10)] but the user index still says a=5: WHERE a = 1 returns nothing
CREATE TABLE r (a INTEGER, b INTEGER);
INSERT INTO r VALUES (1, 10);
CREATE INDEX r_a ON r (a);
BEGIN;
INSERT INTO r VALUES (2, 20);
UPDATE r SET a = 5 WHERE a = 1;
ROLLBACK;
SELECT a, b FROM r;
SELECT b FROM r WHERE a = 1;
SELECT b FROM r WHERE a = 2;
SELECT b FROM r WHERE a = 5;

-- [C09/C06 / D-truthy, E-truthy] integer truth values: SELECT keeps the row, UPDATE and DELETE do not; JOIN .. ON errors
CREATE TABLE w (a INTEGER, b INTEGER);
INSERT INTO w VALUES (1, 10);
INSERT INTO w VALUES (0, 20);
INSERT INTO w VALUES (NULL, 30);
SELECT b FROM w WHERE a;
--   observed: [10]
UPDATE w SET b = b + 1 WHERE a;
--   observed: 0 rows   (expected 1)
DELETE FROM w WHERE a;
--   observed: 0 rows   (expected 1)
CREATE TABLE j1 (x INTEGER);
CREATE TABLE j2 (y INTEGER);
INSERT INTO j1 VALUES (1);
INSERT INTO j2 VALUES (7);
SELECT x, y FROM j1 JOIN j2 ON x;
--   observed: ERROR "JOIN condition must evaluate to boolean, got: Integer(1)"
SELECT x, y FROM j1, j2 WHERE x;
--   observed: [1, 7]

-- [C09 #12] UPDATE through the primary-key fast path with an INTEGER literal on a BIGINT key
CREATE TABLE u (id BIGINT PRIMARY KEY, v INTEGER);
INSERT INTO u VALUES (1, 10);
UPDATE u SET v = 11 WHERE id = 1;
--   observed: 0 rows
SELECT v FROM u;
--   observed: [10]   (expected [11])

-- [C03] the row path gets NULL-only groups right (compare with the columnar results in sql_confirmed_defects.sql)
CREATE TABLE g (k INTEGER, v INTEGER);
INSERT INTO g VALUES (1, NULL);
INSERT INTO g VALUES (1, NULL);
SELECT k, SUM(v), AVG(v), COUNT(v), COUNT(*), MIN(v) FROM g GROUP BY k;
--   observed: [1, NULL, NULL, 0, 2, NULL]   (correct)
