-- Run with the scratch runner in api_runner/ (parses each line with vibesql_parser and dispatches to the
-- real executors; CREATE INDEX and transactions are not reachable through the CLI):
--   cd api_runner && cp /repo/Cargo.lock . && mkdir src && mv main.rs src/ && RUSTC_WRAPPER= cargo build --offline && ./target/debug/runner ../api_confirmed_defects.sql
-- Observed at the pinned commit, 2026-09-21.

-- [C02/C06 / E-cmp-paths] the scan path and the index path disagree on a float comparison
CREATE TABLE fl (x DOUBLE PRECISION, y INTEGER);
INSERT INTO fl VALUES (1.0, 1);
INSERT INTO fl VALUES (1.0000000000000002, 2);
INSERT INTO fl VALUES (1.5, 3);
SELECT y FROM fl WHERE x > 1.0;
--   observed without index: [3]        (1.0000000000000002 > 1.0 is dropped: columnar/filter.rs compare_values uses EPSILON = 1e-9)
CREATE INDEX fl_x ON fl (x);
SELECT y FROM fl WHERE x > 1.0;
--   observed with index:    [2] [3]

-- [C08/C02 / S-idxorder] index-provided ORDER BY puts NULLs first; the sort path puts them last
CREATE TABLE n (a INTEGER, b INTEGER);
INSERT INTO n VALUES (NULL, 1);
INSERT INTO n VALUES (5, 2);
INSERT INTO n VALUES (1, 3);
SELECT b FROM n ORDER BY a;
--   observed without index: [3] [2] [1]   (NULL last)
CREATE INDEX n_a ON n (a);
SELECT b FROM n ORDER BY a;
--   observed with index:    [1] [3] [2]   (NULL first)

-- [C01 / literal typing + comparison through f64] adjacent integers above 2^53
CREATE TABLE big (k BIGINT, v INTEGER);
INSERT INTO big VALUES (9007199254740992, 1);
INSERT INTO big VALUES (9007199254740993, 2);
SELECT v FROM big WHERE k > 9007199254740992;
--   observed: no rows   (expected [2])
-- [C14 #16] UPDATE and DELETE are not recorded: ROLLBACK TO SAVEPOINT fails with RowNotFound and leaves [2] (expected [1])
CREATE TABLE s (a INTEGER);
BEGIN;
INSERT INTO s VALUES (1);
SAVEPOINT sp1;
UPDATE s SET a = 2 WHERE a = 1;
INSERT INTO s VALUES (3);
DELETE FROM s WHERE a = 3;
SELECT a FROM s;
ROLLBACK TO SAVEPOINT sp1;
SELECT a FROM s;
COMMIT;
-- [C14 #15] duplicate savepoint name: rollback goes to the FIRST x, leaving [1] (SQL:1999: the latest, leaving [1] [2])
CREATE TABLE q (a INTEGER);
BEGIN;
INSERT INTO q VALUES (1);
SAVEPOINT x;
INSERT INTO q VALUES (2);
SAVEPOINT x;
INSERT INTO q VALUES (3);
ROLLBACK TO SAVEPOINT x;
SELECT a FROM q;
COMMIT;
-- [C13 #25, not claimed] after ROLLBACK the table is restored to [(1,10)] but the user index still says a=5: WHERE a = 1 returns nothing
CREATE TABLE r (a INTEGER, b INTEGER);
INSERT INTO r VALUES (1, 10);
CREATE INDEX r_a ON r (a);
BEGIN;
INSERT INTO r VALUES (2, 20);
UPDATE r SET a = 5 WHERE a = 1;
ROLLBACK;
SELECT a, b FROM r;
SELECT b FROM r WHERE a = 1;
SELECT b FROM r WHERE a = 2;
SELECT b FROM r WHERE a = 5;
