use vstd::prelude::*;
verus! {

// ---- preamble (R2): opaque key with uninterpreted total order ----
#[verifier::external_body]
pub struct Key { k: Vec<u8> }
pub uninterp spec fn key_le(a: Key, b: Key) -> bool;
pub open spec fn key_lt(a: Key, b: Key) -> bool { key_le(a, b) && a != b }
#[verifier::external_body]
pub proof fn key_total_order()
    ensures
        forall|a: Key| key_le(a, a),
        forall|a: Key, b: Key| key_le(a, b) || key_le(b, a),
        forall|a: Key, b: Key| key_le(a, b) && key_le(b, a) ==> a == b,
        forall|a: Key, b: Key, c: Key| key_le(a, b) && key_le(b, c) ==> key_le(a, c),
{}
impl Clone for Key {
    #[verifier::external_body]
    fn clone(&self) -> (r: Key) ensures r == *self { Key { k: self.k.clone() } }
}
pub type RowId = usize;
pub type PageId = u64;

pub struct LeafNode {
    pub page_id: PageId,
    pub entries: Vec<(Key, Vec<RowId>)>,
    pub next_leaf: PageId,
}

pub open spec fn sorted(s: Seq<(Key, Vec<RowId>)>) -> bool {
    forall|i: int, j: int| 0 <= i < j < s.len() ==> key_lt(s[i].0, s[j].0)
}

// R4 stub: slice::binary_search_by_key(&&key, |(k,_)| k)
#[verifier::external_body]
fn bsearch_entries(v: &Vec<(Key, Vec<RowId>)>, key: &Key) -> (r: Result<usize, usize>)
    requires sorted(v@)
    ensures
        match r {
            Ok(i) => i < v@.len() && v@[i as int].0 == *key,
            Err(i) => i <= v@.len()
                && (forall|j: int| 0 <= j < i ==> key_lt(v@[j].0, *key))
                && (forall|j: int| i <= j < v@.len() ==> key_lt(*key, v@[j].0)),
        }
{ unimplemented!() }

pub open spec fn has_key(s: Seq<(Key, Vec<RowId>)>, k: Key) -> bool { exists|i: int| 0 <= i < s.len() && s[i].0 == k }

impl LeafNode {
    // ---- extracted text of LeafNode::insert (operations.rs) with R4 applied ----
    pub fn insert(&mut self, key: Key, row_id: RowId) -> (r: bool)
        requires sorted(old(self).entries@)
        ensures
            r,
            sorted(final(self).entries@),
            has_key(final(self).entries@, key),
            has_key(old(self).entries@, key) ==> final(self).entries@.len() == old(self).entries@.len(),
            !has_key(old(self).entries@, key) ==> final(self).entries@.len() == old(self).entries@.len() + 1,
    {
        proof { key_total_order(); }
        match bsearch_entries(&self.entries, &key) {
            Ok(idx) => {
                // Key exists, append row_id to the existing Vec
                self.entries[idx].1.push(row_id);
                true
            }
            Err(idx) => {
                // Key doesn't exist, insert new entry with Vec containing single row_id
                self.entries.insert(idx, (key, vec![row_id]));
                true
            }
        }
    }
}
}
fn main() {}
