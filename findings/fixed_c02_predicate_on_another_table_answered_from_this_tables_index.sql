-- Reproduction through the library API (tools/api_runner) of the defect repaired by the "fix:" commit
-- "a predicate on a column of another table was answered from this table's index on a column of the same name" (executor select/scan/table.rs).
-- Run: /verif/.cache/runner-target/debug/runner findings/fixed_c02_predicate_on_another_table_answered_from_this_tables_index.sql
-- In a join the complete WHERE clause is handed to the scan of every joined table; the index code matched column references by COLUMN NAME only, so
-- `t2.a = 3` became the range [3,3] on the index of `t1.a` (and the scan reported the WHERE clause as handled).
-- BEFORE (with the indexes): query 1 returned (2,3,1,3) only, query 2 nothing, query 3 (3,3) only, query 4 nothing. Without the indexes: the rows below.
-- AFTER: the same rows with and without the indexes: 1: (1,1,1,3) (2,3,1,3); 2: (2,3,2,5); 3: (2,3) (3,3); 4: (2).
CREATE TABLE t1 (id INTEGER, a INTEGER)
CREATE TABLE t2 (id INTEGER, a INTEGER)
INSERT INTO t1 VALUES (1, 1), (2, 3)
INSERT INTO t2 VALUES (1, 3), (2, 5)
CREATE INDEX i1 ON t1 (a)
SELECT * FROM t1, t2 WHERE t2.a = 3
SELECT * FROM t1 JOIN t2 ON t1.id = t2.id WHERE t2.a > 4
CREATE TABLE p (id INTEGER, a INTEGER, b INTEGER)
INSERT INTO p VALUES (1, 1, 2), (2, 5, 2), (3, 5, 1)
CREATE INDEX ipb ON p (b)
SELECT x.id, y.id FROM p x JOIN p y ON x.a = y.a WHERE y.b = 1
SELECT id FROM p x WHERE x.b = 2 AND EXISTS (SELECT 1 FROM p y WHERE y.a = x.a AND y.id <> x.id)
SELECT id FROM t1 WHERE t1.a = 3
SELECT id FROM t1 WHERE a >= 2
