-- Reproduction through the library API (tools/api_runner) of the defect repaired by the "fix:" commit 2308fd7d
-- "ROLLBACK TO SAVEPOINT failed with RowNotFound when the inserted / updated value had been normalized" (storage table/mod.rs, Table::remove_row).
-- Run: /verif/.cache/runner-target/debug/runner findings/fixed_c14_rollback_normalized_row.sql
-- BEFORE the fix: both ROLLBACK TO SAVEPOINT statements answered "ERROR RowNotFound" and the inserted / updated row stayed: the table stores 'abc'
-- (VARCHAR(3) truncates), the change log holds 'abcdef' / 'lmnopq', and the undo looks the recorded row up by equality.
-- AFTER: the table is back to its contents at the savepoint.
CREATE TABLE v (a VARCHAR(3), b INTEGER)
INSERT INTO v VALUES ('xyz', 1)
BEGIN
SAVEPOINT s1
INSERT INTO v VALUES ('abcdef', 2)
SELECT a, b FROM v
ROLLBACK TO SAVEPOINT s1
SELECT a, b FROM v
SAVEPOINT s2
UPDATE v SET a = 'lmnopq' WHERE b = 1
SELECT a, b FROM v
ROLLBACK TO SAVEPOINT s2
SELECT a, b FROM v
COMMIT
