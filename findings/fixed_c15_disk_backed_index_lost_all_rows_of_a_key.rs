//! Reproduction (against the real code) of the defect repaired by the "fix:" commit
//! "a disk-backed index lost every row of a key when one of them was updated or deleted" (storage database/indexes/index_maintenance.rs).
//!
//! Place as crates/vibesql-storage/tests/c15_disk_backed_key.rs and run
//!   RUSTC_WRAPPER= cargo test -p vibesql-storage --offline --test c15_disk_backed_key
//!
//! A user-defined index is kept in a disk-backed B+ tree when the table is large or the memory budget makes it spill (here: a budget of 1 byte
//! with SpillPolicy::SpillToDisk). The disk-backed arms of update_indexes_for_update / update_indexes_for_delete called BTreeIndex::delete(key),
//! which removes EVERY row position stored under the key, although BTreeIndex::delete_specific(key, row) exists for exactly this use.
//! BEFORE the fix: after moving ONE of three rows with a = 10 to a = 30 the index held NO position under key 10 (rows 0 and 2 still have a = 10):
//! the same query answers differently with an in-memory index. AFTER: key 10 -> [0, 2]; removing position 2 leaves [0].
use vibesql_ast::{IndexColumn, OrderDirection};
use vibesql_catalog::{ColumnSchema, TableSchema};
use vibesql_storage::{Database, DatabaseConfig, Row, SpillPolicy};
use vibesql_types::{DataType, SqlValue};

fn positions(db: &Database, name: &str, key: i64) -> Vec<usize> {
    let mut v = db.get_index_data(name).unwrap().multi_lookup(&[SqlValue::Integer(key)]);
    v.sort();
    v
}

#[test]
fn disk_backed_update_and_delete_keep_the_other_rows_of_the_key() {
    let dir = std::env::temp_dir().join(format!("c15_disk_backed_key_{}", std::process::id()));
    std::fs::create_dir_all(&dir).unwrap();
    let cfg = DatabaseConfig { memory_budget: 1, disk_budget: usize::MAX, spill_policy: SpillPolicy::SpillToDisk, sql_mode: Default::default() };
    let mut db = Database::with_path_and_config(dir.clone(), cfg);
    let schema = TableSchema::new(
        "T".to_string(),
        vec![ColumnSchema::new("ID".to_string(), DataType::Integer, false), ColumnSchema::new("A".to_string(), DataType::Integer, true)],
    );
    db.create_table(schema).unwrap();
    for (id, a) in [(1, 10), (2, 10), (3, 10), (4, 20)] {
        db.insert_row("T", Row { values: vec![SqlValue::Integer(id), SqlValue::Integer(a)] }).unwrap();
    }
    db.create_index("IA".to_string(), "T".to_string(), false, vec![IndexColumn { column_name: "A".to_string(), direction: OrderDirection::Asc, prefix_length: None }])
        .unwrap();
    assert!(!matches!(db.get_index_data("IA").unwrap(), vibesql_storage::database::IndexData::InMemory { .. }), "the index was expected to spill to disk");
    assert_eq!(positions(&db, "IA", 10), vec![0, 1, 2]);

    // UPDATE the row at position 1: a = 10 -> 30
    let old = Row { values: vec![SqlValue::Integer(2), SqlValue::Integer(10)] };
    let new = Row { values: vec![SqlValue::Integer(2), SqlValue::Integer(30)] };
    db.get_table_mut("T").unwrap().update_row(1, new.clone()).unwrap();
    db.update_indexes_for_update("T", &old, &new, 1);
    assert_eq!(positions(&db, "IA", 30), vec![1]);
    assert_eq!(positions(&db, "IA", 10), vec![0, 2], "rows 0 and 2 still have a = 10");

    // take the row at position 2 out of the indexes: the row at position 0 keeps its entry
    let gone = Row { values: vec![SqlValue::Integer(3), SqlValue::Integer(10)] };
    db.update_indexes_for_delete("T", &gone, 2);
    assert_eq!(positions(&db, "IA", 10), vec![0]);
    let _ = std::fs::remove_dir_all(&dir);
}
