-- OBSERVED, not under contract (no unit covers columnar/aggregate.rs; see DESIGN.md 9b): the columnar aggregate path mishandles NULLs.
-- Run: /verif/.cache/runner-target/debug/runner findings/observed_c03_columnar_nulls.sql
-- observed: all-NULL INTEGER column: SUM = 0.0, AVG = 0.0, COUNT(a) = 2 (SQL: NULL, NULL, 0); table n {NULL,5,1}: COUNT(*) = 2 (SQL: 3);
-- table s: COUNT(a) = 2 for one non-NULL value (SQL: 1). COUNT(*) is represented as COUNT(column 0) in AggregateSpec, compute_sum counts NULLs, compute_count ignores the column.
CREATE TABLE z (a INTEGER)
INSERT INTO z VALUES (NULL)
INSERT INTO z VALUES (NULL)
SELECT SUM(a), AVG(a), MIN(a), COUNT(a), COUNT(*) FROM z
CREATE TABLE n (a INTEGER, b INTEGER)
INSERT INTO n VALUES (NULL, 1)
INSERT INTO n VALUES (5, 2)
INSERT INTO n VALUES (1, 3)
SELECT SUM(a), AVG(a), COUNT(a), COUNT(*) FROM n
SELECT SUM(a), AVG(a), COUNT(a), COUNT(*) FROM n WHERE b > 0
CREATE TABLE s (a VARCHAR(5), d DOUBLE PRECISION)
INSERT INTO s VALUES ('x', NULL)
INSERT INTO s VALUES (NULL, 2.5)
SELECT COUNT(a), COUNT(d), COUNT(*), SUM(d), AVG(d), MIN(a) FROM s
