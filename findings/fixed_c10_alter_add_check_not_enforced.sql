-- Reproduction through the library API (tools/api_runner) of the defect repaired by the "fix:" commit
-- "ALTER TABLE ADD CHECK was neither checked against the existing rows nor enforced afterwards" (executor alter/constraints.rs).
-- Run: /verif/.cache/runner-target/debug/runner findings/fixed_c10_alter_add_check_not_enforced.sql
-- The constraint was added to the table's own copy of the schema only; INSERT and UPDATE read the constraints from the catalog's copy.
-- BEFORE: the ALTER on k (a row with v = 500 exists) succeeded; on c the constraint was added but the INSERT of 300 and the UPDATE to 700 were ACCEPTED.
-- AFTER: the ALTER on k is rejected; on c both statements are rejected (NULL passes: UNKNOWN does not violate a CHECK).
CREATE TABLE k (id INTEGER PRIMARY KEY, v INTEGER)
INSERT INTO k VALUES (1, 500)
ALTER TABLE k ADD CONSTRAINT k_pos CHECK (v <= 100)
CREATE TABLE c (id INTEGER PRIMARY KEY, v INTEGER)
INSERT INTO c VALUES (1, 5)
INSERT INTO c VALUES (2, NULL)
ALTER TABLE c ADD CONSTRAINT c_pos CHECK (v <= 100)
INSERT INTO c VALUES (3, 300)
UPDATE c SET v = 700 WHERE id = 1
INSERT INTO c VALUES (4, NULL)
INSERT INTO c VALUES (5, 50)
SELECT id, v FROM c ORDER BY id
