-- Reproduction through the library API (tools/api_runner) of the defect repaired by the "fix:" commit
-- "columnar filter let NULL satisfy =, <=, >= and BETWEEN" (select/columnar/filter.rs, evaluate_predicate).
-- Run: /verif/.cache/runner-target/debug/runner findings/fixed_c03_columnar_null_predicate.sql
-- BEFORE the fix the first four queries returned 2, 3, 3, 3 (the NULL row was counted: compare_values(NULL, x) falls back to Ordering::Equal);
-- AFTER: 1, 2, 2, 2 - the answers of the row path (last query: same predicate behind an OR that the columnar extractor refuses).
CREATE TABLE n (a INTEGER, b INTEGER)
INSERT INTO n VALUES (NULL, 1)
INSERT INTO n VALUES (5, 2)
INSERT INTO n VALUES (1, 3)
SELECT COUNT(*) FROM n WHERE a = 5
SELECT COUNT(*) FROM n WHERE a <= 5
SELECT COUNT(*) FROM n WHERE a >= 0
SELECT COUNT(*) FROM n WHERE a BETWEEN 0 AND 10
SELECT COUNT(*) FROM n WHERE (1 = 0 OR 1 = 1) AND a <= 5
