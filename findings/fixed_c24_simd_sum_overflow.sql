-- Reproduction through the library API (tools/api_runner) of the defect repaired by the "fix:" commit
-- "accumulate the columnar SUM of integer columns in i128".
-- Before the fix both SUM queries PANIC in a debug build at simd/aggregation.rs ("attempt to add with overflow") and wrap in release.
CREATE TABLE big (a BIGINT)
INSERT INTO big VALUES (9223372036854775807)
INSERT INTO big VALUES (1)
INSERT INTO big VALUES (5)
SELECT SUM(a) FROM big
SELECT SUM(a), COUNT(*) FROM big WHERE a > 0
