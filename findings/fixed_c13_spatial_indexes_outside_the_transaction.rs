//! Reproduction (against the real code) of the defect repaired by the "fix:" commit "spatial indexes were outside the transaction"
//! (storage database/operations.rs: the spatial indexes are kept as they were at BEGIN and put back on ROLLBACK).
//! Written by the round-7 C13 seeding agent as a probe of the UNMODIFIED tree; the four spatial_* tests FAILED before the fix and pass after it
//! (session_variable_set_in_transaction still fails: session state is not part of the transaction - observed, DESIGN 9c).
//!
//! Place as crates/vibesql-executor/tests/c13_spatial_indexes.rs and run
//!   RUST_MIN_STACK=268435456 RUSTC_WRAPPER= cargo test -p vibesql-executor --offline --test c13_spatial_indexes
// Probes of the UNMODIFIED worktree: histories without any second BEGIN for which ROLLBACK does
// not restore the state at BEGIN. Every test asserts the property, so a FAILED test is a
// pre-existing violation.

use vibesql_ast::Statement;
use vibesql_storage::Database;

fn exec(db: &mut Database, sql: &str) -> Result<String, String> {
    let stmt = vibesql_parser::Parser::parse_sql(sql).map_err(|e| format!("parse {sql}: {e:?}"))?;
    let r = match stmt {
        Statement::CreateTable(s) => vibesql_executor::CreateTableExecutor::execute(&s, db),
        Statement::DropTable(s) => vibesql_executor::DropTableExecutor::execute(&s, db),
        Statement::TruncateTable(s) => {
            vibesql_executor::TruncateTableExecutor::execute(&s, db).map(|n| format!("{n} truncated"))
        }
        Statement::Insert(s) => {
            vibesql_executor::InsertExecutor::execute(db, &s).map(|n| format!("{n} inserted"))
        }
        Statement::Update(s) => {
            vibesql_executor::UpdateExecutor::execute(&s, db).map(|n| format!("{n} updated"))
        }
        Statement::Delete(s) => {
            vibesql_executor::DeleteExecutor::execute(&s, db).map(|n| format!("{n} deleted"))
        }
        Statement::CreateIndex(s) => vibesql_executor::CreateIndexExecutor::execute(&s, db),
        Statement::DropIndex(s) => vibesql_executor::DropIndexExecutor::execute(&s, db),
        Statement::BeginTransaction(s) => {
            vibesql_executor::BeginTransactionExecutor::execute(&s, db)
        }
        Statement::Commit(s) => vibesql_executor::CommitExecutor::execute(&s, db),
        Statement::Rollback(s) => vibesql_executor::RollbackExecutor::execute(&s, db),
        other => return Err(format!("statement not handled: {other:?}")),
    };
    r.map_err(|e| format!("{e}"))
}

fn ok(db: &mut Database, sql: &str) {
    exec(db, sql).unwrap_or_else(|e| panic!("`{sql}` failed: {e}"));
}

fn places() -> Database {
    let mut db = Database::new();
    ok(&mut db, "CREATE TABLE places (id INTEGER PRIMARY KEY, loc VARCHAR(100))");
    ok(
        &mut db,
        "INSERT INTO places VALUES (1, 'POINT(1 1)'), (2, 'POINT(2 2)'), (3, 'POINT(3 3)')",
    );
    db
}

/// (row ids of the spatial index, sorted)
fn spatial_ids(db: &Database, name: &str) -> Option<Vec<usize>> {
    db.get_spatial_index(name).map(|i| {
        let mut ids = i.all_row_ids();
        ids.sort();
        ids
    })
}

#[test]
fn spatial_index_created_in_transaction_survives_rollback() {
    let mut db = places();
    let before = db.list_spatial_indexes();
    ok(&mut db, "BEGIN");
    ok(&mut db, "CREATE SPATIAL INDEX sx ON places (loc)");
    ok(&mut db, "ROLLBACK");
    assert_eq!(db.list_spatial_indexes(), before, "spatial indexes after ROLLBACK vs at BEGIN");
}

#[test]
fn spatial_index_dropped_in_transaction_is_not_restored() {
    let mut db = places();
    ok(&mut db, "CREATE SPATIAL INDEX sx ON places (loc)");
    let before = db.list_spatial_indexes();
    ok(&mut db, "BEGIN");
    ok(&mut db, "DROP INDEX sx");
    ok(&mut db, "ROLLBACK");
    assert_eq!(db.list_spatial_indexes(), before, "spatial indexes after ROLLBACK vs at BEGIN");
}

#[test]
fn spatial_index_of_table_dropped_in_transaction_is_not_restored() {
    let mut db = places();
    ok(&mut db, "CREATE SPATIAL INDEX sx ON places (loc)");
    let before = db.list_spatial_indexes();
    ok(&mut db, "BEGIN");
    ok(&mut db, "DROP TABLE places");
    ok(&mut db, "ROLLBACK");
    assert!(db.get_table("places").is_some());
    assert_eq!(db.list_spatial_indexes(), before, "spatial indexes after ROLLBACK vs at BEGIN");
}

#[test]
fn spatial_index_contents_follow_rollback_of_dml() {
    let mut db = places();
    ok(&mut db, "CREATE SPATIAL INDEX sx ON places (loc)");
    let before = spatial_ids(&db, "sx");
    ok(&mut db, "BEGIN");
    ok(&mut db, "INSERT INTO places VALUES (4, 'POINT(4 4)')");
    ok(&mut db, "INSERT INTO places VALUES (5, 'POINT(5 5)')");
    ok(&mut db, "ROLLBACK");
    assert_eq!(db.get_table("places").unwrap().row_count(), 3);
    assert_eq!(spatial_ids(&db, "sx"), before, "row ids held by the spatial index");
}

#[test]
fn truncate_in_transaction_is_rolled_back_with_indexes() {
    let mut db = Database::new();
    ok(&mut db, "CREATE TABLE t (id INTEGER PRIMARY KEY, a INTEGER)");
    ok(&mut db, "INSERT INTO t VALUES (1, 10), (2, 20), (3, 30)");
    ok(&mut db, "CREATE INDEX ix_a ON t (a)");
    let before = format!("{:?}", db.get_index_data("ix_a"));
    ok(&mut db, "BEGIN");
    ok(&mut db, "TRUNCATE TABLE t");
    ok(&mut db, "INSERT INTO t VALUES (9, 90)");
    ok(&mut db, "ROLLBACK");
    assert_eq!(db.get_table("t").unwrap().row_count(), 3);
    assert_eq!(format!("{:?}", db.get_index_data("ix_a")), before);
}

#[test]
fn session_variable_set_in_transaction() {
    let mut db = Database::new();
    db.set_session_variable("x", vibesql_types::SqlValue::Integer(1));
    db.begin_transaction().unwrap();
    db.set_session_variable("x", vibesql_types::SqlValue::Integer(2));
    db.rollback_transaction().unwrap();
    assert_eq!(db.get_session_variable("x"), Some(&vibesql_types::SqlValue::Integer(1)));
}
