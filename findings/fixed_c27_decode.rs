// Reproduction of the defects repaired by the "fix:" commit on FrontendMessage::decode / decode_startup.
// vibesql-server is a binary crate: paste these tests into the `mod tests` of
// crates/vibesql-server/src/protocol/messages.rs and run
//   RUSTC_WRAPPER= cargo test -p vibesql-server --offline protocol::messages
// Before the fix: (1) panics "attempt to add with overflow" (debug) / waits forever (release),
// (2) panics in bytes::advance ("cannot advance past `remaining`"), (3) consumes the NEXT frame's bytes,
// (4) leaves the tail of the frame in the buffer (stream de-synchronised), (5) panics in get_i32.
#[test]
fn verif_decode_negative_length_is_an_error_not_a_panic() {
    let mut buf = BytesMut::new();
    buf.put_u8(b'Q');
    buf.put_i32(-1);
    buf.put_slice(b"x\0");
    assert!(FrontendMessage::decode(&mut buf).is_err());
}
#[test]
fn verif_decode_length_smaller_than_header_is_an_error() {
    let mut buf = BytesMut::new();
    buf.put_u8(b'X');
    buf.put_i32(0);
    assert!(FrontendMessage::decode(&mut buf).is_err());
}
#[test]
fn verif_decode_never_reads_past_the_declared_frame() {
    // frame 1: Query with declared length 6 = 4 + "ab" and NO terminator inside the frame; frame 2 follows
    let mut buf = BytesMut::new();
    buf.put_u8(b'Q');
    buf.put_i32(6);
    buf.put_slice(b"ab");
    buf.put_u8(b'X');
    buf.put_i32(4);
    buf.put_u8(0);
    let r = FrontendMessage::decode(&mut buf);
    assert!(r.is_err(), "unterminated string inside the frame must be an error, got {:?}", r);
    // the following frame is untouched
    assert_eq!(&buf[..], &[b'X', 0, 0, 0, 4, 0]);
}
#[test]
fn verif_decode_consumes_the_whole_frame() {
    let mut buf = BytesMut::new();
    buf.put_u8(b'Q');
    buf.put_i32(4 + 3 + 4);
    buf.put_slice(b"ab\0junk");
    buf.put_u8(b'X');
    buf.put_i32(4);
    let m = FrontendMessage::decode(&mut buf).unwrap();
    assert_eq!(m, Some(FrontendMessage::Query { query: "ab".to_string() }));
    assert_eq!(FrontendMessage::decode(&mut buf).unwrap(), Some(FrontendMessage::Terminate));
}
#[test]
fn verif_decode_startup_short_length_is_an_error_not_a_panic() {
    let mut buf = BytesMut::new();
    buf.put_i32(5);
    buf.put_u8(0);
    assert!(FrontendMessage::decode_startup(&mut buf).is_err());
}
