-- Reproduction through the library API (tools/api_runner) of the defect repaired by the "fix:" commit on
-- range_bounds::try_increment_sqlvalue ("f + |f|*EPSILON" is not the IEEE successor).
-- Run: /verif/.cache/runner-target/debug/runner /verif/findings/fixed_c02_float_successor.sql
-- Before the fix the query after CREATE INDEX misses the row a = 1.5000000000000002 (the key directly above 1.5),
-- although the same query without the index, evaluated exactly, must return it: results depend on the index (C02).
CREATE TABLE t (a DOUBLE PRECISION, b INTEGER)
INSERT INTO t VALUES (1.5, 1)
INSERT INTO t VALUES (1.5000000000000002, 2)
INSERT INTO t VALUES (1.5000000000000004, 3)
INSERT INTO t VALUES (2.5, 4)
CREATE INDEX ix ON t (a, b)
SELECT a, b FROM t WHERE a > 1.5
-- expected after the fix: [1.5000000000000002, 2] [1.5000000000000004, 3] [2.5, 4]
-- observed before the fix: [1.5000000000000004, 3] [2.5, 4]   (row 2 missing)
