//! Reproduction (against the real code) of the defect repaired by the "fix:" commit
//! "NaN and infinite floats came back as NULL from a JSON save / load" (storage persistence/json.rs).
//!
//! Place as crates/vibesql-storage/tests/c18_json_non_finite.rs and run
//!   RUSTC_WRAPPER= cargo test -p vibesql-storage --offline --test c18_json_non_finite
//!
//! JSON has no NaN and no infinities: serde_json writes them as `null`, and `null` is read back as SQL NULL (a NOT NULL column made the load fail).
//! BEFORE the fix: the three non-finite DOUBLE values (and the REAL one) come back as Null. AFTER: NaN is NaN, +-inf are +-inf, finite values and
//! -0.0 as before (the binary format always kept them bit for bit).
use vibesql_catalog::{ColumnSchema, TableSchema};
use vibesql_storage::{Database, Row};
use vibesql_types::{DataType, SqlValue};

#[test]
fn non_finite_floats_survive_a_json_round_trip() {
    let mut db = Database::new();
    db.create_table(TableSchema::new(
        "T".to_string(),
        vec![
            ColumnSchema::new("ID".to_string(), DataType::Integer, false),
            ColumnSchema::new("D".to_string(), DataType::DoublePrecision, true),
            ColumnSchema::new("R".to_string(), DataType::Real, true),
        ],
    ))
    .unwrap();
    let rows = [(1, f64::NAN, f32::INFINITY), (2, f64::INFINITY, 1.5f32), (3, f64::NEG_INFINITY, -0.0f32), (4, 2.25, f32::NAN)];
    for (id, d, r) in rows {
        db.insert_row("T", Row { values: vec![SqlValue::Integer(id), SqlValue::Double(d), SqlValue::Real(r)] }).unwrap();
    }
    let path = std::env::temp_dir().join(format!("c18_json_non_finite_{}.json", std::process::id()));
    db.save_json(&path).unwrap();
    let loaded = Database::load_json(&path).unwrap();
    let _ = std::fs::remove_file(&path);
    let got = loaded.get_table("T").unwrap().scan().to_vec();
    assert_eq!(got.len(), 4);
    for (row, (_, d, r)) in got.iter().zip(rows) {
        match (&row.values[1], &row.values[2]) {
            (SqlValue::Double(gd), SqlValue::Real(gr)) => {
                assert!(gd.to_bits() == d.to_bits() || (gd.is_nan() && d.is_nan()), "DOUBLE {:?} came back as {:?}", d, gd);
                assert!(gr.to_bits() == r.to_bits() || (gr.is_nan() && r.is_nan()), "REAL {:?} came back as {:?}", r, gr);
            }
            other => panic!("row came back as {:?}", other),
        }
    }
}
