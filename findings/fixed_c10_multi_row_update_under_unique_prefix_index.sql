-- Reproduction through the library API (tools/api_runner) of the defect repaired by the "fix:" commit
-- "a multi-row UPDATE gave two rows the same prefix under a UNIQUE prefix index" (executor update/mod.rs).
-- Run: /verif/.cache/runner-target/debug/runner findings/fixed_c10_multi_row_update_under_unique_prefix_index.sql
-- The per-row check of UPDATE compares each new row with the index as it was BEFORE the statement; the rows of one statement are compared with each
-- other by a statement-level check, which skipped prefix indexes ("left to the per-row check"). Two rows set to values with the same prefix in ONE
-- UPDATE were both accepted: the UNIQUE index on name(3) then held "abc" -> two rows.
-- BEFORE: the first UPDATE was accepted (2 rows). AFTER: rejected; the second UPDATE (distinct prefixes) is still accepted.
CREATE TABLE t (id INTEGER PRIMARY KEY, name VARCHAR(20))
CREATE UNIQUE INDEX un ON t (name(3))
INSERT INTO t VALUES (1, 'one')
INSERT INTO t VALUES (2, 'two')
INSERT INTO t VALUES (3, 'six')
UPDATE t SET name = 'abc' || name WHERE id <= 2
SELECT id, name FROM t ORDER BY id
UPDATE t SET name = name || 'abc' WHERE id <= 2
SELECT id, name FROM t ORDER BY id
