-- Reproduction through the library API (tools/api_runner) of the defect repaired by the "fix:" commit 7f59e8a3
-- "fast paths treated BETWEEN SYMMETRIC as plain BETWEEN" (columnar/filter.rs, vectorized/compiled_predicate.rs, scan/index_scan/{predicate,execution}.rs).
-- Run: /verif/.cache/runner-target/debug/runner findings/fixed_c06_between_symmetric.sql
-- x BETWEEN SYMMETRIC 3 AND 2 means x BETWEEN 2 AND 3. The expression evaluator swaps the bounds; the table-scan predicate extractor, the compiled
-- WHERE clause and the index range extractor matched the node with `symmetric: _` and filtered with low = 3, high = 2.
-- BEFORE the fix: queries 1, 3 and 5 returned no row / 0 while their row-path twins (2, 4, 6: same predicate behind `OR 1 = 0`) returned 2 and 3.
-- AFTER: all six agree.
CREATE TABLE t (a INTEGER, b INTEGER)
INSERT INTO t VALUES (1, 10)
INSERT INTO t VALUES (2, 20)
INSERT INTO t VALUES (3, 30)
SELECT a FROM t WHERE a BETWEEN SYMMETRIC 3 AND 2
SELECT a FROM t WHERE a BETWEEN SYMMETRIC 3 AND 2 OR 1 = 0
SELECT COUNT(*) FROM t WHERE a BETWEEN SYMMETRIC 3 AND 2
SELECT COUNT(*) FROM t WHERE (a BETWEEN SYMMETRIC 3 AND 2) OR 1 = 0
CREATE TABLE i (a INTEGER, b INTEGER)
CREATE INDEX i_a ON i (a)
INSERT INTO i VALUES (1, 10)
INSERT INTO i VALUES (2, 20)
INSERT INTO i VALUES (3, 30)
SELECT a FROM i WHERE a BETWEEN SYMMETRIC 3 AND 2
SELECT a FROM i WHERE a BETWEEN SYMMETRIC 3 AND 2 OR 1 = 0
