-- Reproduction through the library API (tools/api_runner) of the defect repaired by the "fix:" commit 4585fb51
-- "ROLLBACK left indexes created inside the transaction behind (stale positions, panic on a missing column)".
-- Run: /verif/.cache/runner-target/debug/runner findings/fixed_c15_rollback_left_indexes_of_the_transaction.sql
-- BEFORE: (1) after the first ROLLBACK the index INA of the rolled-back table N survived with the positions of rows that no longer exist; with N
-- re-created the three index-driven SELECTs returned every row TWICE (`a >= 10 ORDER BY a`: 7,8,9,7,8,9) and CREATE INDEX ina failed with
-- IndexAlreadyExists; (2) the second ROLLBACK PANICKED ("Index column should exist": the index INC of the transaction names column C, the
-- restored table M has no such column) and so did the INSERT after it.
-- AFTER: each row once, CREATE INDEX succeeds, no panic.
BEGIN
CREATE TABLE n (id INTEGER PRIMARY KEY, a INTEGER)
CREATE INDEX ina ON n (a)
INSERT INTO n VALUES (1, 10)
INSERT INTO n VALUES (2, 10)
INSERT INTO n VALUES (3, 20)
ROLLBACK
CREATE TABLE n (id INTEGER PRIMARY KEY, a INTEGER)
INSERT INTO n VALUES (7, 20)
INSERT INTO n VALUES (8, 30)
INSERT INTO n VALUES (9, 30)
SELECT id, a FROM n WHERE a >= 10 ORDER BY a
SELECT id, a FROM n WHERE a >= 10
SELECT id, a FROM n WHERE a BETWEEN 10 AND 30
CREATE INDEX ina ON n (a)
CREATE TABLE m (id INTEGER PRIMARY KEY, a INTEGER)
INSERT INTO m VALUES (1, 10)
BEGIN
DROP TABLE m
CREATE TABLE m (id INTEGER PRIMARY KEY, b INTEGER, c INTEGER)
CREATE INDEX inc ON m (c)
INSERT INTO m VALUES (1, 10, 5)
ROLLBACK
SELECT id, a FROM m
INSERT INTO m VALUES (2, 20)
SELECT id, a FROM m ORDER BY id
