-- Reproduction through the library API (tools/api_runner) of the defect repaired by the "fix:" commit ea284e95
-- "WHERE re-check was skipped for index ranges without a lower bound, which return the NULL keys" (executor select/scan/index_scan/execution.rs,
-- where_clause_fully_satisfied_by_index).
-- Run: /verif/.cache/runner-target/debug/runner findings/fixed_c02_null_keys_in_open_ranges.sql
-- BEFORE the fix: `WHERE a < 5 ORDER BY a` returned [Null, 1] [3, 2] and `SELECT DISTINCT a ... WHERE a <= 5` returned [3] [5] [Null], and
-- `x NOT IN (SELECT a FROM i WHERE a < 4)` was NULL instead of TRUE: the rows whose indexed column IS NULL sit under the least key and an
-- unbounded-start range scan returns them; the WHERE clause was not re-applied. The same queries without the index (a + 0 < 5) were right.
-- AFTER: the NULL row is not returned.
CREATE TABLE i (a INTEGER, b INTEGER)
CREATE TABLE o (x INTEGER)
CREATE INDEX i_a ON i (a)
INSERT INTO i VALUES (NULL, 1)
INSERT INTO i VALUES (3, 2)
INSERT INTO i VALUES (7, 3)
INSERT INTO i VALUES (5, 4)
INSERT INTO o VALUES (3)
INSERT INTO o VALUES (9)
SELECT a, b FROM i WHERE a < 5 ORDER BY a
SELECT DISTINCT a FROM i WHERE a <= 5
SELECT a, b FROM i WHERE a + 0 < 5 ORDER BY a
SELECT x, x NOT IN (SELECT a FROM i WHERE a < 4) FROM o
SELECT x, x NOT IN (SELECT a FROM i WHERE a + 0 < 4) FROM o
