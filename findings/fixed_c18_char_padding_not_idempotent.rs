//! Reproduction (against the real code) of the defect repaired by the "fix:" commit
//! "CHAR(n) padding of multi-byte values was not idempotent" (storage table/normalization.rs, normalize_char_value).
//!
//! Place as crates/vibesql-storage/tests/c18_char_padding.rs and run
//!   RUSTC_WRAPPER= cargo test -p vibesql-storage --offline --test c18_char_padding
//!
//! The length of a CHAR(n) value was compared in BYTES but padded in CHARACTERS: 'é' (2 bytes) in CHAR(4) was stored as "é   " (4 characters,
//! 5 bytes); normalizing that stored value again - which every reload does (Table::insert), and UPDATE does (normalize_row, then update_row) -
//! found 5 bytes > 4 and truncated it to "é  ". The row that comes back from a save / load differs from the row that was saved.
//! BEFORE the fix: both assertions fail ("é   " vs "é  "). AFTER: a stored value is a fixed point of the normalization (exactly n bytes).
use vibesql_catalog::{ColumnSchema, TableSchema};
use vibesql_storage::{Database, Row};
use vibesql_types::{DataType, SqlValue};

#[test]
fn a_stored_char_value_survives_a_second_normalization_and_a_reload() {
    let mut db = Database::new();
    db.create_table(TableSchema::new(
        "T".to_string(),
        vec![ColumnSchema::new("ID".to_string(), DataType::Integer, false), ColumnSchema::new("C".to_string(), DataType::Character { length: 4 }, true)],
    ))
    .unwrap();
    db.insert_row("T", Row { values: vec![SqlValue::Integer(1), SqlValue::Character("é".to_string())] }).unwrap();
    let stored = db.get_table("T").unwrap().scan()[0].clone();

    // normalizing what is stored changes nothing
    let again = db.get_table("T").unwrap().normalize_row(stored.clone()).unwrap();
    assert_eq!(again.values, stored.values, "the stored row is not a fixed point of the normalization");

    // .. so a save / load returns the row that was saved
    let path = std::env::temp_dir().join(format!("c18_char_padding_{}.vbsql", std::process::id()));
    db.save_uncompressed(&path).unwrap();
    let loaded = Database::load_binary(&path).unwrap();
    let _ = std::fs::remove_file(&path);
    assert_eq!(loaded.get_table("T").unwrap().scan()[0].values, stored.values, "the reloaded row differs from the saved one");
}
