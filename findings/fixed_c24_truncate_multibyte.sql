-- Reproduction through the library API (tools/api_runner) of the defect repaired by the "fix:" commit d1cdb4bc
-- "truncating a string to a column width panicked inside a multi-byte character" (storage table/normalization.rs, executor insert/validation.rs, persistence.rs).
-- Run: /verif/.cache/runner-target/debug/runner findings/fixed_c24_truncate_multibyte.sql
-- BEFORE the fix both INSERTs panicked (byte index 2 is not a char boundary; it is inside 'é'). AFTER: they succeed, the value is cut before the 'é'.
CREATE TABLE v (s VARCHAR(2), c CHAR(2))
INSERT INTO v VALUES ('héllo', 'ab')
SELECT s, c FROM v
INSERT INTO v VALUES ('ab', 'héllo')
SELECT s, c FROM v
