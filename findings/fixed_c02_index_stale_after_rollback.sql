-- Reproduction through the library API (tools/api_runner) of the defect repaired by the "fix:" commit 3518c656
-- "ROLLBACK left the user-defined indexes describing the rolled-back state" (storage database/core.rs, rollback_transaction).
-- Run: /verif/.cache/runner-target/debug/runner findings/fixed_c02_index_stale_after_rollback.sql
-- BEFORE the fix: the three index scans returned nothing / nothing / nothing while the same predicates written as a + 0 = .. (no index) returned [1,10] and
-- nothing, and COUNT(*) = 3. AFTER: [1,10], [3,30], nothing - the index agrees with the restored table.
CREATE TABLE i (a INTEGER, b INTEGER)
CREATE INDEX i_a ON i (a)
INSERT INTO i VALUES (1, 10)
INSERT INTO i VALUES (2, 20)
INSERT INTO i VALUES (3, 30)
BEGIN
DELETE FROM i WHERE a = 1
INSERT INTO i VALUES (4, 40)
ROLLBACK
SELECT a, b FROM i WHERE a = 1
SELECT a, b FROM i WHERE a = 3
SELECT a, b FROM i WHERE a = 4
SELECT a, b FROM i WHERE a + 0 = 1
SELECT a, b FROM i WHERE a + 0 = 4
SELECT COUNT(*) FROM i
