-- KF-C10-append-mode-skip: reproduction through the real CLI:  /repo/target/debug/vibesql -f /verif/findings/kf_c10_append_mode.sql
CREATE TABLE t (id INTEGER PRIMARY KEY, v INTEGER);
INSERT INTO t VALUES (100, 1);
INSERT INTO t VALUES (1, 1);
INSERT INTO t VALUES (2, 1);
INSERT INTO t VALUES (3, 1);
INSERT INTO t VALUES (4, 1);
CREATE TABLE src (id INTEGER NOT NULL, v INTEGER);
INSERT INTO src VALUES (100, 2);
INSERT INTO t SELECT * FROM src;
SELECT COUNT(*) FROM t WHERE id = 100;
-- observed: the INSERT ... SELECT succeeds ("1 rows") and the count is 2; expected: constraint violation, count 1
