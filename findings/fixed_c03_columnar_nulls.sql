-- Reproduction through the library API (tools/api_runner) of the defects repaired by the "fix:" commits 2bdb5818 (COUNT), 7763bb0f (SUM/AVG)
-- and 4367d049 (empty input) in the columnar aggregate fast path (select/columnar/aggregate.rs, mod.rs).
-- Run: /verif/.cache/runner-target/debug/runner findings/fixed_c03_columnar_nulls.sql
-- BEFORE the fixes: all-NULL INTEGER column z: SUM = 0.0, AVG = 0.0, COUNT(a) = 2 (SQL: NULL, NULL, 0); table n {NULL,5,1}: COUNT(*) = 2 (SQL: 3);
--   table s: COUNT(a) = 2 for one non-NULL value (SQL: 1); empty table e: COUNT(*) = NULL, COUNT(a) = NULL (SQL: 0, 0).
--   Cause: COUNT(*) was planned as COUNT(column 0) and answered by the SIMD non-NULL count; compute_sum counted NULLs; compute_count ignored the column;
--   execute_columnar_aggregate returned a row of NULLs for empty input.
-- AFTER: [Null, Null, Null, 0, 2]; [6.0, 3.0, 2, 3] (twice); [1, 1, 2, 2.5, 2.5, 'x']; [0, 0, Null] (twice) - the row-path answers.
CREATE TABLE z (a INTEGER)
INSERT INTO z VALUES (NULL)
INSERT INTO z VALUES (NULL)
SELECT SUM(a), AVG(a), MIN(a), COUNT(a), COUNT(*) FROM z
CREATE TABLE n (a INTEGER, b INTEGER)
INSERT INTO n VALUES (NULL, 1)
INSERT INTO n VALUES (5, 2)
INSERT INTO n VALUES (1, 3)
SELECT SUM(a), AVG(a), COUNT(a), COUNT(*) FROM n
SELECT SUM(a), AVG(a), COUNT(a), COUNT(*) FROM n WHERE b > 0
CREATE TABLE s (a VARCHAR(5), d DOUBLE PRECISION)
INSERT INTO s VALUES ('x', NULL)
INSERT INTO s VALUES (NULL, 2.5)
SELECT COUNT(a), COUNT(d), COUNT(*), SUM(d), AVG(d), MIN(a) FROM s
CREATE TABLE e (a INTEGER)
SELECT COUNT(*), COUNT(a), SUM(a) FROM e
SELECT COUNT(*), COUNT(a), SUM(a) FROM e WHERE a > 1
