-- Reproduction through the library API (tools/api_runner) of the defects repaired by the "fix:" commits b2dd05ac
-- "user-defined indexes were keyed by the row as handed in, not as stored after normalization" (storage database/operations.rs, core.rs) and 6956946f
-- "REPLACE and ON DUPLICATE KEY UPDATE left the user-defined indexes stale" (executor insert/replace.rs, insert/duplicate_key_update.rs).
-- Run: /verif/.cache/runner-target/debug/runner findings/fixed_c02_index_keys_of_normalized_rows.sql
-- BEFORE: `WHERE a = 'abc' ORDER BY a` found nothing although the table holds ('abc', 2) (index key 'abcdef'); the same after UPDATE ('qrs');
-- after ON DUPLICATE KEY UPDATE a = 9, `WHERE a = 9` found nothing and `WHERE a = 5` returned (1, 9); after REPLACE, `WHERE a = 6` returned (2, 8).
-- AFTER: every query returns what the same query without the index returns.
CREATE TABLE v (a VARCHAR(3), b INTEGER)
CREATE INDEX v_a ON v (a)
INSERT INTO v VALUES ('xyz', 1)
INSERT INTO v VALUES ('abcdef', 2)
SELECT a, b FROM v WHERE a = 'abc' ORDER BY a
UPDATE v SET a = 'qrstuv' WHERE b = 1
SELECT a, b FROM v WHERE a = 'qrs' ORDER BY a
CREATE TABLE k (id INTEGER PRIMARY KEY, a INTEGER)
CREATE INDEX k_a ON k (a)
INSERT INTO k VALUES (1, 5)
INSERT INTO k VALUES (2, 6)
INSERT INTO k VALUES (1, 7) ON DUPLICATE KEY UPDATE a = 9
SELECT id, a FROM k WHERE a = 9 ORDER BY a
SELECT id, a FROM k WHERE a = 5 ORDER BY a
REPLACE INTO k VALUES (2, 8)
SELECT id, a FROM k WHERE a = 8 ORDER BY a
SELECT id, a FROM k WHERE a = 6 ORDER BY a
