-- Reproduction through the library API (tools/api_runner) of the defect repaired by the "fix:" commit
-- "a multi-row INSERT accepted two rows with the same prefix under a UNIQUE prefix index" (executor insert/constraints.rs, unique_index_keys).
-- Run: /verif/.cache/runner-target/debug/runner findings/fixed_c10_multi_row_insert_under_unique_prefix_index.sql
-- The rows of ONE INSERT are compared with each other through unique_index_keys, which skipped prefix indexes ("left to the check at insert time");
-- the storage batch check probes every row against the index BEFORE any row of the batch is in it. Nobody compared the two rows.
-- BEFORE: the first INSERT was accepted (UNIQUE index T_NAME then held "abc" -> two rows). AFTER: rejected, like the two single-row INSERTs.
CREATE TABLE t (id INTEGER, name VARCHAR(20))
CREATE UNIQUE INDEX t_name ON t (name(3))
INSERT INTO t VALUES (1, 'abcdef'), (2, 'abcxyz')
SELECT id, name FROM t ORDER BY id
INSERT INTO t VALUES (3, 'abcdef'), (4, 'xyzxyz')
SELECT id, name FROM t ORDER BY id
