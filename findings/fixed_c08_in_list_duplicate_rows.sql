-- Reproduction through the library API (tools/api_runner) of the defect repaired by the "fix:" commit 1fd7fb89
-- "IN list through an index returned a row once per list value that normalizes to its key" (storage database/indexes/point_lookup.rs multi_lookup,
-- prefix_match.rs prefix_multi_lookup).
-- Run: /verif/.cache/runner-target/debug/runner findings/fixed_c08_in_list_duplicate_rows.sql
-- BEFORE the fix: `WHERE a IN (5, 5.0)` returned the row (5,4) twice through the single-column index i_a, and both rows with a = 5 twice through the
-- two-column index m_ab: the list values were deduplicated BEFORE normalization (Integer 5 and Numeric 5.0 both become Double 5.0).
-- AFTER: every row once.
CREATE TABLE i (a INTEGER, b INTEGER)
CREATE INDEX i_a ON i (a)
INSERT INTO i VALUES (3, 2)
INSERT INTO i VALUES (5, 4)
SELECT a, b FROM i WHERE a IN (5, 5.0) ORDER BY a
SELECT a, b FROM i WHERE a IN (5, 5.0)
CREATE TABLE m (a INTEGER, b INTEGER)
CREATE INDEX m_ab ON m (a, b)
INSERT INTO m VALUES (3, 2)
INSERT INTO m VALUES (5, 3)
INSERT INTO m VALUES (5, 4)
SELECT a, b FROM m WHERE a IN (5, 5.0) ORDER BY a
SELECT a, b FROM m WHERE a IN (5, 5.0)
