//! Reproduction (against the real code) of the defect repaired by the "fix:" commit
//! "a failing batch insert left the rows before the rejected one in the table, unindexed" (storage database/operations.rs, insert_rows_batch).
//!
//! Place as crates/vibesql-storage/tests/c15_failed_batch.rs and run
//!   RUSTC_WRAPPER= cargo test -p vibesql-storage --offline --test c15_failed_batch
//!
//! Database::insert_rows_batch inserted the rows one by one and maintained the user-defined (CREATE INDEX) indexes in a second pass AFTER all
//! of them: when Table::insert rejected a later row (here: wrong column count) the function returned the error with the earlier rows of the
//! batch already in the table - and in NO user-defined index, and in no change log (the caller records a batch only after success).
//! BEFORE the fix: after the failed batch the table holds row 1 but the index on `a` does not know it -> the assertions fail.
//! AFTER: a failed batch changes nothing (every row is checked before any is inserted).
use vibesql_ast::{IndexColumn, OrderDirection};
use vibesql_catalog::{ColumnSchema, TableSchema};
use vibesql_storage::{Database, Row};
use vibesql_types::{DataType, SqlValue};

#[test]
fn a_failed_batch_leaves_no_unindexed_rows() {
    let mut db = Database::new();
    let schema = TableSchema::new(
        "T".to_string(),
        vec![ColumnSchema::new("ID".to_string(), DataType::Integer, false), ColumnSchema::new("A".to_string(), DataType::Integer, true)],
    );
    db.create_table(schema).unwrap();
    db.create_index(
        "IA".to_string(),
        "T".to_string(),
        false,
        vec![IndexColumn { column_name: "A".to_string(), direction: OrderDirection::Asc, prefix_length: None }],
    )
    .unwrap();

    let good = Row { values: vec![SqlValue::Integer(1), SqlValue::Integer(10)] };
    let bad = Row { values: vec![SqlValue::Integer(2)] }; // one value short: Table::insert rejects it
    assert!(db.insert_rows_batch("T", vec![good, bad]).is_err());

    let rows_in_table = db.get_table("T").unwrap().row_count();
    let positions_in_index: usize = match db.get_index_data("IA").unwrap() {
        vibesql_storage::database::IndexData::InMemory { data } => data.values().map(|v| v.len()).sum(),
        _ => panic!("expected an in-memory index"),
    };
    assert_eq!(rows_in_table, positions_in_index, "the index on A holds {} positions for a table of {} rows", positions_in_index, rows_in_table);
    assert_eq!(rows_in_table, 0, "a failed batch left {} row(s) behind", rows_in_table);
}
