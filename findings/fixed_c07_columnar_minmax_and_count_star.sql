-- Reproduction through the library API (tools/api_runner) of the defects repaired by the "fix:" commits 20eb4028
-- "columnar MIN / MAX kept the first value for strings, dates, booleans and REAL; SUM / AVG failed on REAL" (executor select/columnar/aggregate.rs) and ca65dab2
-- "COUNT(*) fast path ignored LIMIT / OFFSET and a CTE shadowing the table name" (executor select/executor/aggregation/detection.rs, mod.rs).
-- Run: /verif/.cache/runner-target/debug/runner findings/fixed_c07_columnar_minmax_and_count_star.sql
-- BEFORE: MIN(s), MAX(s) -> 'pear', 'pear' (the first value, twice; same for DATE, BOOLEAN, REAL) while the GROUP BY form returns 'apple', 'zebra';
-- SUM(r) / AVG(r) over the REAL column -> ERROR "Cannot compute SUM on non-numeric value: Real(1.5)"; COUNT(*) .. LIMIT 0 and .. OFFSET 1 -> one row (3);
-- WITH p AS (SELECT 1 AS a) SELECT COUNT(*) FROM p -> 3 (the table p, not the CTE). AFTER: the values below agree with the row path / the definition.
CREATE TABLE p (id INTEGER, g INTEGER, r REAL, s VARCHAR(10), dt DATE, ok BOOLEAN)
INSERT INTO p VALUES (1, 1, 1.5, 'pear', DATE '2024-03-01', TRUE)
INSERT INTO p VALUES (2, 1, 0.5, 'apple', DATE '2023-01-15', FALSE)
INSERT INTO p VALUES (3, 1, 2.5, 'zebra', DATE '2025-07-04', TRUE)
SELECT MIN(s), MAX(s) FROM p
SELECT MIN(dt), MAX(dt) FROM p
SELECT MIN(ok), MAX(ok) FROM p
SELECT MIN(r), MAX(r) FROM p
SELECT SUM(r), AVG(r) FROM p
SELECT g, MIN(s), MAX(s), MIN(r), MAX(r), SUM(r) FROM p GROUP BY g
SELECT COUNT(*) FROM p LIMIT 0
SELECT COUNT(*) FROM p OFFSET 1
WITH p AS (SELECT 1 AS a) SELECT COUNT(*) FROM p
WITH p AS (SELECT id FROM p WHERE id > 1) SELECT COUNT(*) FROM p
