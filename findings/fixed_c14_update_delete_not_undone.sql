-- Reproduction through the library API (tools/api_runner) of the defect repaired by the "fix:" commit bd4781a4
-- "UPDATE and DELETE were not undone by ROLLBACK TO SAVEPOINT" (executor update/mod.rs, delete/executor.rs, storage database/core.rs undo_change).
-- Run: /verif/.cache/runner-target/debug/runner findings/fixed_c14_update_delete_not_undone.sql
-- Only Database::insert_row recorded a TransactionChange. UPDATE and DELETE never called record_change, so ROLLBACK TO SAVEPOINT undid the INSERT
-- below and left the UPDATE and the DELETE in place; and the Update arm of undo_change removed the OLD row (which is no longer in the table) instead
-- of the new one. DELETE without WHERE additionally took the TRUNCATE shortcut, which records nothing.
-- BEFORE the fix: the SELECT after ROLLBACK TO SAVEPOINT returned [1, 99] only.  AFTER: [1, 10] [2, 20] - the state at the savepoint.
CREATE TABLE t (a INTEGER, b INTEGER)
INSERT INTO t VALUES (1, 10)
INSERT INTO t VALUES (2, 20)
BEGIN
SAVEPOINT s1
UPDATE t SET b = 99 WHERE a = 1
DELETE FROM t WHERE a = 2
INSERT INTO t VALUES (3, 30)
ROLLBACK TO SAVEPOINT s1
SELECT a, b FROM t ORDER BY a
SAVEPOINT s2
DELETE FROM t
ROLLBACK TO SAVEPOINT s2
SELECT a, b FROM t ORDER BY a
COMMIT
SELECT a, b FROM t ORDER BY a
