-- Reproduction through the library API (tools/api_runner) of the defect repaired by the "fix:" commit c1df84f2
-- "REPLACE ignored user-defined UNIQUE indexes: it removed the PRIMARY KEY conflict and then failed" (executor insert/replace.rs).
-- Run: /verif/.cache/runner-target/debug/runner findings/fixed_c10_replace_unique_index.sql
-- BEFORE: REPLACE INTO w VALUES (1, 6, 9) deleted row (1,5,1) (PRIMARY KEY conflict), then the insert failed on UNIQUE INDEX w_a (row (2,6,2)):
-- a rejected statement had removed a row. AFTER: both conflicting rows are replaced by (1,6,9).
CREATE TABLE w (id INTEGER PRIMARY KEY, a INTEGER, b INTEGER)
CREATE UNIQUE INDEX w_a ON w (a)
INSERT INTO w VALUES (1, 5, 1)
INSERT INTO w VALUES (2, 6, 2)
INSERT INTO w VALUES (3, 7, 3)
REPLACE INTO w VALUES (1, 6, 9)
SELECT id, a, b FROM w ORDER BY id
SELECT id, a, b FROM w WHERE a = 6 ORDER BY a
