-- Reproduction through the library API (tools/api_runner) of the defect repaired by the "fix:" commit 7c58e6b3
-- "CREATE UNIQUE INDEX was not enforced on UPDATE (probe key not normalized)" (storage database/indexes/point_lookup.rs, contains_key).
-- Run: /verif/.cache/runner-target/debug/runner findings/fixed_c10_unique_index_update.sql
-- BEFORE the fix: UPDATE w SET a = 5 WHERE b = 3 succeeded and the table held (5,1) and (5,3) under UNIQUE INDEX w_a. AFTER: it is rejected.
CREATE TABLE w (a INTEGER, b INTEGER)
CREATE UNIQUE INDEX w_a ON w (a)
INSERT INTO w VALUES (5, 1)
INSERT INTO w VALUES (5, 2)
SELECT a, b FROM w
UPDATE w SET a = 5 WHERE b = 2
INSERT INTO w VALUES (6, 3)
UPDATE w SET a = 5 WHERE b = 3
SELECT a, b FROM w ORDER BY b
