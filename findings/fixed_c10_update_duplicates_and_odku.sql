-- Reproduction through the library API (tools/api_runner) of the defects repaired by the "fix:" commits 3b5d38c3
-- "a multi-row UPDATE could give two rows the same key; ON DUPLICATE KEY UPDATE skipped the constraints" and 442858f2
-- "an UPDATE whose later row the table rejects left the earlier rows changed" (executor update/mod.rs, insert/duplicate_key_update.rs).
-- Run: /verif/.cache/runner-target/debug/runner findings/fixed_c10_update_duplicates_and_odku.sql
-- BEFORE: `UPDATE t SET u = 7 WHERE id < 3` and `UPDATE t SET id = 9 WHERE v > 10` succeeded and left two rows with u = 7 / id = 9 (UNIQUE, PRIMARY KEY;
-- the same under CREATE UNIQUE INDEX); `.. ON DUPLICATE KEY UPDATE u = 3`, `.. id = 2`, `.. c = 1` succeeded and left a duplicate UNIQUE value, a duplicate
-- PRIMARY KEY and a row violating CHECK (c > 10); the last UPDATE failed with a type error after rows 1 and 2 had already been rewritten.
-- AFTER: all of them are rejected and the table is unchanged by the rejected statements.
CREATE TABLE t (id INTEGER PRIMARY KEY, u INTEGER UNIQUE, v INTEGER, c INTEGER CHECK (c > 10))
INSERT INTO t VALUES (1, 1, 10, 11)
INSERT INTO t VALUES (2, 2, 20, 12)
INSERT INTO t VALUES (3, 3, 30, 13)
UPDATE t SET u = 7 WHERE id < 3
UPDATE t SET id = 9 WHERE v > 10
INSERT INTO t VALUES (1, 50, 0, 11) ON DUPLICATE KEY UPDATE u = 3
INSERT INTO t VALUES (1, 50, 0, 11) ON DUPLICATE KEY UPDATE id = 2
INSERT INTO t VALUES (1, 50, 0, 11) ON DUPLICATE KEY UPDATE c = 1
UPDATE t SET v = CASE WHEN id = 3 THEN 'zz' ELSE 5 END
SELECT id, u, v, c FROM t ORDER BY id
CREATE TABLE w (id INTEGER PRIMARY KEY, a INTEGER)
CREATE UNIQUE INDEX w_a ON w (a)
INSERT INTO w VALUES (1, 1)
INSERT INTO w VALUES (2, 2)
UPDATE w SET a = 5
SELECT id, a FROM w ORDER BY id
-- (fix for multi-row INSERT under CREATE UNIQUE INDEX: BEFORE, the next statement succeeded and the table held (3, 5) and (4, 5); AFTER, it is rejected)
INSERT INTO w VALUES (3, 5), (4, 5)
SELECT id, a FROM w ORDER BY id
