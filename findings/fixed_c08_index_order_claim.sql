-- Reproduction through the library API (tools/api_runner) of the defect repaired by the "fix:" commit 2d05905b
-- "index order was claimed as the ORDER BY order for mixed directions and for ASC over NULL keys" (executor select/scan/index_scan/execution.rs).
-- Run: /verif/.cache/runner-target/debug/runner findings/fixed_c08_index_order_claim.sql
-- BEFORE the fix: with CREATE INDEX o_ab ON o (a ASC, b DESC), `ORDER BY a ASC, b DESC` returned [Null,5] [1,1] [1,2] [2,1] [2,2] (index order: all
-- ascending, NULL first) instead of [1,2] [1,1] [2,2] [2,1] [Null,5]; with (a DESC, b ASC), `ORDER BY a DESC, b ASC` returned [2,2] [2,1] [1,2] [1,1] ..;
-- `ORDER BY a` over the single-column index o3_a returned the NULL row FIRST while the same query without the index (ORDER BY a + 0) returns it LAST.
-- AFTER: the same sequences as without the indexes.
CREATE TABLE o (a INTEGER, b INTEGER)
INSERT INTO o VALUES (1, 1)
INSERT INTO o VALUES (1, 2)
INSERT INTO o VALUES (2, 1)
INSERT INTO o VALUES (2, 2)
INSERT INTO o VALUES (NULL, 5)
CREATE INDEX o_ab ON o (a ASC, b DESC)
SELECT a, b FROM o ORDER BY a ASC, b DESC
SELECT a, b FROM o ORDER BY a
CREATE TABLE o2 (a INTEGER, b INTEGER)
INSERT INTO o2 VALUES (1, 1)
INSERT INTO o2 VALUES (1, 2)
INSERT INTO o2 VALUES (2, 1)
INSERT INTO o2 VALUES (2, 2)
INSERT INTO o2 VALUES (NULL, 5)
CREATE INDEX o2_ab ON o2 (a DESC, b ASC)
SELECT a, b FROM o2 ORDER BY a DESC, b ASC
CREATE TABLE o3 (a INTEGER, b INTEGER)
INSERT INTO o3 VALUES (2, 1)
INSERT INTO o3 VALUES (NULL, 5)
INSERT INTO o3 VALUES (1, 1)
CREATE INDEX o3_a ON o3 (a)
SELECT a, b FROM o3 ORDER BY a
SELECT a, b FROM o3 ORDER BY a + 0
-- (fix "ORDER BY <alias> was served from an index on a column of the same name": BEFORE, the next query returned the alias values -1, -3, -5 - the order of
--  COLUMN k through index ak_k; AFTER: -5, -3, -1, as without the index)
CREATE TABLE ak (id INTEGER, k INTEGER)
INSERT INTO ak VALUES (1,5)
INSERT INTO ak VALUES (2,1)
INSERT INTO ak VALUES (4,3)
CREATE INDEX ak_k ON ak (k)
SELECT id, 0 - k AS k FROM ak ORDER BY k
