//! Reproduction (against the real code) of the defect repaired by the "fix:" commit 450b7548 450b7548
//! "binary loader materialised rows for a table without columns" (storage persistence/binary/data.rs, read_data).
//!
//! Place as crates/vibesql-storage/tests/c20_zero_column_rows.rs and run
//!   RUSTC_WRAPPER= cargo test -p vibesql-storage --offline --test c20_zero_column_rows
//!
//! A table without columns stores no bytes per row, so the u64 row count in the data section is not backed by any input: a 16-hex-digit
//! edit of a ~100-byte file made load_binary insert that many empty rows (2_000_000 here: seconds and tens of MB; u64::MAX: never returns).
//! BEFORE the fix: the load "succeeds" with 2_000_000 rows from a file of a few hundred bytes -> the assertion fails.
//! AFTER: load_binary returns an error.
use vibesql_catalog::TableSchema;
use vibesql_storage::Database;

#[test]
fn row_count_of_a_zero_column_table_is_not_trusted() {
    let dir = std::env::temp_dir().join(format!("c20_zero_col_{}", std::process::id()));
    std::fs::create_dir_all(&dir).unwrap();
    let path = dir.join("db.vbsql");

    let mut db = Database::new();
    db.create_table(TableSchema::new("Z".to_string(), vec![])).unwrap();
    db.save_binary(&path).unwrap();

    // the data section ends with: <len:u32>"Z"... <row_count:u64 = 0>; overwrite the last 8 bytes (the row count of the only table)
    let mut bytes = std::fs::read(&path).unwrap();
    let n = bytes.len();
    assert!(bytes[n - 8..].iter().all(|b| *b == 0), "expected the file to end with the zero row count");
    bytes[n - 8..].copy_from_slice(&2_000_000u64.to_le_bytes());
    std::fs::write(&path, &bytes).unwrap();

    match Database::load_binary(&path) {
        Err(_) => {}
        Ok(loaded) => {
            let rows = loaded.get_table("Z").map(|t| t.row_count()).unwrap_or(0);
            panic!("a {}-byte file materialised {} rows", n, rows);
        }
    }
    let _ = std::fs::remove_dir_all(&dir);
}
