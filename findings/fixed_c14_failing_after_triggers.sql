-- Reproduction through the library API (tools/api_runner) of the defects repaired by the "fix:" commits ccc0b6aa
-- "a failing AFTER UPDATE trigger left the updated rows unindexed and outside the change log" and 72e8b191
-- "a failing AFTER INSERT trigger left a ghost Insert entry in the change log" (executor update/mod.rs, insert/execution.rs).
-- (Any trigger created from SQL text fails when it fires in this code base - the stored body cannot be re-parsed - so CREATE TRIGGER is enough.)
-- Run: /verif/.cache/runner-target/debug/runner findings/fixed_c14_failing_after_triggers.sql
-- BEFORE: after the failing UPDATE the row read (5,'zed') but `WHERE name = 'zed'` through the index found nothing, and ROLLBACK TO SAVEPOINT s1 left 'zed';
-- after the failing INSERT, ROLLBACK TO SAVEPOINT s2 answered ERROR RowNotFound. AFTER: index and table agree, both rollbacks restore the savepoint state.
CREATE TABLE users (id INTEGER PRIMARY KEY, name VARCHAR(10))
CREATE INDEX users_name ON users (name)
INSERT INTO users VALUES (5, 'eve')
CREATE TRIGGER failing_u AFTER UPDATE ON users FOR EACH ROW BEGIN INSERT INTO nonexistent_table (col) VALUES (1); END
BEGIN
SAVEPOINT s1
UPDATE users SET name = 'zed' WHERE id = 5
SELECT id, name FROM users
SELECT id, name FROM users WHERE name = 'zed' ORDER BY name
ROLLBACK TO SAVEPOINT s1
SELECT id, name FROM users
COMMIT
CREATE TABLE people (id INTEGER PRIMARY KEY, name VARCHAR(10))
CREATE TRIGGER failing_i AFTER INSERT ON people FOR EACH ROW BEGIN INSERT INTO nonexistent_table (col) VALUES (1); END
BEGIN
SAVEPOINT s2
INSERT INTO people VALUES (1, 'alice')
SELECT id, name FROM people
ROLLBACK TO SAVEPOINT s2
SELECT id, name FROM people
COMMIT
