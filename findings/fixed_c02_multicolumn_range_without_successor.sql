-- Reproduction through the library API (tools/api_runner) of the defect repaired by the "fix:" commit 7bd57b75
-- "range scan on a multi-column index ignored the bound when its value has no successor" (storage database/indexes/range_scan.rs, multi-column path).
-- Run: /verif/.cache/runner-target/debug/runner findings/fixed_c02_multicolumn_range_without_successor.sql
-- BEFORE the fix: `WHERE a > 'abc' ORDER BY a` through the index s_ab (a, b) returned ['abc',1] ['abc',4] ['abd',2] (the exclusive start fell back to
-- Excluded(['abc']), which admits ['abc', x]); `WHERE a > DATE '2024-01-01' ORDER BY a` returned the 2024-01-01 row; and
-- `WHERE a BETWEEN DATE '2023-12-31' AND DATE '2024-01-01' ORDER BY a` returned the 2024-01-02 row (inclusive end without a successor -> unbounded end).
-- The same queries without ORDER BY re-apply WHERE and were right. AFTER: only the qualifying rows.
CREATE TABLE s (a VARCHAR(10), b INTEGER)
CREATE INDEX s_ab ON s (a, b)
INSERT INTO s VALUES ('abc', 1)
INSERT INTO s VALUES ('abd', 2)
INSERT INTO s VALUES ('abb', 3)
INSERT INTO s VALUES ('abc', 4)
SELECT a, b FROM s WHERE a > 'abc' ORDER BY a
SELECT a, b FROM s WHERE a > 'abc'
CREATE TABLE d (a DATE, b INTEGER)
CREATE INDEX d_ab ON d (a, b)
INSERT INTO d VALUES (DATE '2024-01-01', 1)
INSERT INTO d VALUES (DATE '2024-01-02', 2)
SELECT a, b FROM d WHERE a > DATE '2024-01-01' ORDER BY a
SELECT a, b FROM d WHERE a BETWEEN DATE '2023-12-31' AND DATE '2024-01-01' ORDER BY a
