-- Reproduction through the library API (tools/api_runner) of the defect repaired by the "fix:" commit
-- "Database::drop_table left the user-defined indexes of the table behind" (storage database/operations.rs, drop_table).
-- Run: /verif/.cache/runner-target/debug/runner findings/fixed_c15_dropped_table_left_its_indexes.sql
-- drop_table asked the index registry to drop the indexes of "public.A"; the registry holds the table name CREATE INDEX was given ("A"), compared
-- with ==, so nothing was dropped. DROP TABLE got away with it (its executor drops the indexes by name first); ALTER TABLE .. RENAME TO (drop +
-- re-create) did not: the index UA of the old name survived with its entries, and a NEW table created under the old name inherited it.
-- BEFORE: the last INSERT - into a brand-new EMPTY table - was rejected: "UNIQUE constraint 'UA' violated: duplicate key value for (K)".
-- AFTER: accepted; the renamed table has no index any more (RENAME does not carry indexes over: observed, DESIGN 9c).
CREATE TABLE a (id INTEGER, k INTEGER)
CREATE UNIQUE INDEX ua ON a (k)
INSERT INTO a VALUES (1, 10)
ALTER TABLE a RENAME TO b
CREATE TABLE a (id INTEGER, k INTEGER)
INSERT INTO a VALUES (7, 10)
SELECT id, k FROM a
SELECT id, k FROM b
