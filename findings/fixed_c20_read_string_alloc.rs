// Reproduction of the defect repaired by the "fix:" commit "read_string no longer allocates the length prefix up front".
// Drop into crates/vibesql-storage/tests/ and run UNDER AN ADDRESS-SPACE LIMIT, e.g.
//   ( ulimit -v 1500000; RUSTC_WRAPPER= cargo test -p vibesql-storage --offline --test fixed_c20_read_string_alloc )
// Before the fix the test process ABORTS ("memory allocation of 4294967295 bytes failed") on an 8-byte input;
// after the fix it returns an error, as the property demands.
use vibesql_storage::persistence::binary::io::read_string;

#[test]
fn damaged_length_prefix_is_an_error_not_a_4gib_allocation() {
    let bytes: [u8; 8] = [0xFF, 0xFF, 0xFF, 0xFF, b'a', b'b', b'c', b'd'];
    let mut reader = &bytes[..];
    assert!(read_string(&mut reader).is_err());
}

#[test]
fn well_formed_string_still_round_trips() {
    let bytes: [u8; 7] = [3, 0, 0, 0, b'a', b'b', b'c'];
    let mut reader = &bytes[..];
    assert_eq!(read_string(&mut reader).unwrap(), "abc");
    assert!(reader.is_empty());
}
