-- Reproduction through the library API (tools/api_runner) of the defect repaired by the "fix:" commit fe01f3eb
-- "columnar fast path ignored HAVING, LIMIT and OFFSET" (select/executor/columnar_execution.rs, should_use_columnar).
-- Run: /verif/.cache/runner-target/debug/runner findings/fixed_c03_columnar_gate.sql
-- BEFORE the fix each of the three SELECTs returned the row [3, 6.0]: the gate accepted the query and try_columnar_execution returns the
-- aggregate row without evaluating HAVING or applying LIMIT/OFFSET. AFTER: no row (the row-based path answers), as SQL requires.
CREATE TABLE t (a INTEGER, b INTEGER)
INSERT INTO t VALUES (1, 10)
INSERT INTO t VALUES (2, 20)
INSERT INTO t VALUES (3, 30)
SELECT COUNT(*), SUM(a) FROM t HAVING COUNT(*) > 100
SELECT COUNT(*), SUM(a) FROM t LIMIT 0
SELECT COUNT(*), SUM(a) FROM t WHERE a > 0 LIMIT 1 OFFSET 1
