-- Reproduction through the library API (tools/api_runner) of the defect repaired by the "fix:" commit
-- "ALTER TABLE ADD PRIMARY KEY / ADD UNIQUE was accepted over rows that violate it" (executor alter/constraints.rs).
-- Run: /verif/.cache/runner-target/debug/runner findings/fixed_c10_alter_add_key_over_duplicates.sql
-- BEFORE: all three ALTER statements on p, q and u succeeded: p then had a PRIMARY KEY with two rows of key 1, q a PRIMARY KEY holding a NULL,
-- u a UNIQUE constraint over two rows with v = 10. AFTER: rejected; the constraints on the clean table c (NULLs may repeat under UNIQUE) are still added
-- and enforced.
CREATE TABLE p (id INTEGER, v INTEGER)
INSERT INTO p VALUES (1, 10)
INSERT INTO p VALUES (1, 20)
ALTER TABLE p ADD PRIMARY KEY (id)
CREATE TABLE q (id INTEGER, v INTEGER)
INSERT INTO q VALUES (NULL, 10)
ALTER TABLE q ADD PRIMARY KEY (id)
CREATE TABLE u (id INTEGER, v INTEGER)
INSERT INTO u VALUES (1, 10)
INSERT INTO u VALUES (2, 10)
ALTER TABLE u ADD UNIQUE (v)
CREATE TABLE c (id INTEGER, v INTEGER)
INSERT INTO c VALUES (1, NULL)
INSERT INTO c VALUES (2, NULL)
INSERT INTO c VALUES (3, 30)
ALTER TABLE c ADD PRIMARY KEY (id)
ALTER TABLE c ADD UNIQUE (v)
INSERT INTO c VALUES (3, 40)
INSERT INTO c VALUES (4, 30)
INSERT INTO c VALUES (5, NULL)
SELECT id, v FROM c ORDER BY id
