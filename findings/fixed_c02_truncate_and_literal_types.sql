-- Reproduction through the library API (tools/api_runner) of the defects repaired by the "fix:" commits ea6352fe
-- "DELETE without WHERE and TRUNCATE TABLE left the user-defined indexes pointing at the removed rows", d55aa609
-- "predicates were pushed to an index with literals of another type than its keys" and 3e9c6179
-- "the scan-level filter kept no row for CHAR vs string, TIMESTAMP, TIME and BOOLEAN comparisons".
-- Run: /verif/.cache/runner-target/debug/runner findings/fixed_c02_truncate_and_literal_types.sql
-- BEFORE: after DELETE FROM k; INSERT .. the index scan `a >= 10 ORDER BY a` returned the two new rows TWICE; with the indexes on t,
-- `d = '2024-01-01'`, `d BETWEEN '2024-01-01' AND '2024-12-31'`, `c = 'b    '`, `c >= 'ab'` returned NOTHING (the same queries without index return rows);
-- without any index `WHERE c < 'b'` returned nothing although `c < 'b'` is TRUE for rows 1 and 2 in the select list (C06).
-- AFTER: index and no-index answers agree with each other and with the select list.
CREATE TABLE k (id INTEGER PRIMARY KEY, a INTEGER)
INSERT INTO k VALUES (1, 10)
INSERT INTO k VALUES (2, 20)
CREATE INDEX ia ON k (a)
DELETE FROM k
INSERT INTO k VALUES (5, 20)
INSERT INTO k VALUES (6, 99)
SELECT id, a FROM k WHERE a >= 10 ORDER BY a
CREATE TABLE n (id INTEGER PRIMARY KEY, c CHAR(5))
INSERT INTO n VALUES (1, 'ab')
INSERT INTO n VALUES (2, 'abc')
INSERT INTO n VALUES (4, 'b')
SELECT id FROM n WHERE c < 'b'
SELECT id, c < 'b' FROM n
CREATE TABLE t (id INTEGER PRIMARY KEY, d DATE, c CHAR(5))
INSERT INTO t VALUES (1, DATE '2024-01-01', 'ab')
INSERT INTO t VALUES (2, DATE '2024-06-15', 'abc')
INSERT INTO t VALUES (4, DATE '2023-12-31', 'b')
CREATE INDEX ixd ON t (d)
CREATE INDEX ixc ON t (c)
SELECT id FROM t WHERE d = '2024-01-01' ORDER BY id
SELECT id FROM t WHERE d BETWEEN '2024-01-01' AND '2024-12-31' ORDER BY id
SELECT id FROM t WHERE c = 'b    ' ORDER BY id
SELECT id FROM t WHERE c >= 'ab' ORDER BY id
SELECT id FROM t WHERE c < 'b' ORDER BY id
