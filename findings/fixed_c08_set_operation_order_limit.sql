-- Reproduction through the library API (tools/api_runner) of the defect repaired by the "fix:" commit 1b066bfc
-- "ORDER BY / LIMIT / OFFSET after a set operation were applied to the leftmost SELECT" (executor select/executor/execute.rs).
-- Run: /verif/.cache/runner-target/debug/runner findings/fixed_c08_set_operation_order_limit.sql
-- BEFORE: `.. UNION ALL .. ORDER BY id` returned 1 2 3 4 1 2 3 4 (only the left operand sorted); `ORDER BY id LIMIT 3 OFFSET 3` returned 4 1 2;
-- `OFFSET 2` over 4 + 4 rows returned 4 rows (the left operand was cut, then the combined rows were cut again).
-- AFTER: 1 1 2 2 3 3 4 4; 2 3 3; 6 rows.
CREATE TABLE t (id INTEGER)
CREATE TABLE u (id INTEGER)
INSERT INTO t VALUES (1)
INSERT INTO t VALUES (2)
INSERT INTO t VALUES (3)
INSERT INTO t VALUES (4)
INSERT INTO u VALUES (1)
INSERT INTO u VALUES (2)
INSERT INTO u VALUES (3)
INSERT INTO u VALUES (4)
SELECT id FROM t UNION ALL SELECT id FROM u ORDER BY id
SELECT id FROM t UNION ALL SELECT id FROM u ORDER BY id LIMIT 3 OFFSET 3
SELECT id FROM t UNION ALL SELECT id FROM u OFFSET 2
