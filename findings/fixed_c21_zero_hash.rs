// Reproduction (public API of vibesql-types) of the defect repaired by the "fix:" commit
// "hash -0.0 and 0.0 alike": equal SqlValues landed in different hash buckets, so HashSet/HashMap/IndexSet based
// DISTINCT, GROUP BY, set operations and hash joins could treat 0.0 and -0.0 as different keys although `==` says equal.
// Drop into crates/vibesql-types/tests/ and run `cargo test -p vibesql-types --test fixed_c21_zero_hash`.
use std::collections::HashSet;
use vibesql_types::SqlValue;

#[test]
fn equal_zeros_are_one_key() {
    for (a, b) in [
        (SqlValue::Double(0.0), SqlValue::Double(-0.0)),
        (SqlValue::Numeric(0.0), SqlValue::Numeric(-0.0)),
        (SqlValue::Float(0.0), SqlValue::Float(-0.0)),
        (SqlValue::Real(0.0), SqlValue::Real(-0.0)),
    ] {
        assert!(a == b);
        let mut s = HashSet::new();
        s.insert(vec![a]);
        s.insert(vec![b]);
        assert_eq!(s.len(), 1, "equal values must be one DISTINCT / GROUP BY key");
    }
}
