-- Reproduction through the library API (tools/api_runner; --@RELOAD json = Database::save_json + Database::load_json) of the defect repaired by the
-- "fix:" commit "a JSON reload turned a prefix index into a full-column index" (storage persistence/json.rs).
-- Run: /verif/.cache/runner-target/debug/runner findings/fixed_c18_json_reload_lost_prefix_length.sql
-- save_json writes the prefix length of an index column, load_json ignored it (prefix_length: None): UNIQUE INDEX ip ON t (name(2)) came back as a
-- UNIQUE index on the whole column - other keys, another constraint.
-- BEFORE: the INSERT of 'xyq' (same 2-character prefix as 'xyz') is rejected before the reload and ACCEPTED after it. AFTER: rejected both times.
-- (The binary formats do not store the prefix length at all: observed, DESIGN 9c - a format change.)
CREATE TABLE t (id INTEGER PRIMARY KEY, name VARCHAR(20))
INSERT INTO t VALUES (1, 'abc')
INSERT INTO t VALUES (3, 'xyz')
CREATE UNIQUE INDEX ip ON t (name(2))
INSERT INTO t VALUES (8, 'xyq')
--@RELOAD json
INSERT INTO t VALUES (9, 'xyq')
SELECT id FROM t ORDER BY id
