-- Reproduction through the library API (tools/api_runner) of the defect repaired by the "fix:" commit
-- "UPDATE/DELETE primary-key fast path falls back to the scan when the exact key is not found".
-- Before the fix: DELETE ... WHERE id = 2 reports "0 rows" and UPDATE ... WHERE id = 1 "0 rows" on a BIGINT PRIMARY KEY
-- (the literal is Integer(2), the stored key Bigint(2): the hash index compares structurally) while SELECT ... WHERE id = 2 finds the row.
CREATE TABLE d (id BIGINT PRIMARY KEY, v INTEGER)
INSERT INTO d VALUES (1, 10)
INSERT INTO d VALUES (2, 20)
SELECT COUNT(*) FROM d WHERE id = 2
DELETE FROM d WHERE id = 2
SELECT COUNT(*) FROM d
UPDATE d SET v = 11 WHERE id = 1
SELECT v FROM d WHERE id = 1
