-- Reproduction through the library API (tools/api_runner) of the defects repaired by the "fix:" commits (see KNOWN_FINDINGS.jsonl: "MIN / MAX and ORDER BY
-- treated numeric values of different variants as equal" and da523d26 "row-path SUM / AVG over DOUBLE PRECISION accumulated in f32")
-- (executor select/grouping/aggregates.rs: compare_sql_values, add_sql_values).
-- Run: /verif/.cache/runner-target/debug/runner findings/fixed_c07_row_path_mixed_numeric_and_double_sum.sql
-- BEFORE: MIN(CASE WHEN id = 1 THEN 1 ELSE 0.5 END) -> Integer(1), MAX(.. ELSE 2.5) -> Integer(1) (the first value: INTEGER vs NUMERIC compared as Equal);
-- SUM(f) GROUP BY g over 10000000000.25, 0.25, 0.25 -> Float(10000000000.0) while the columnar form SELECT SUM(f) returns Double(10000000000.75).
-- AFTER: 0.5 / 2.5, and Double(10000000000.75) on both paths.
CREATE TABLE p (id INTEGER, g INTEGER, f DOUBLE PRECISION)
INSERT INTO p VALUES (1, 1, 10000000000.25)
INSERT INTO p VALUES (2, 1, 0.25)
INSERT INTO p VALUES (3, 1, 0.25)
SELECT MIN(CASE WHEN id = 1 THEN 1 ELSE 0.5 END), MAX(CASE WHEN id = 1 THEN 1 ELSE 2.5 END) FROM p
SELECT g, MIN(CASE WHEN id = 1 THEN 1 ELSE 0.5 END), MAX(CASE WHEN id = 1 THEN 1 ELSE 2.5 END) FROM p GROUP BY g
SELECT g, SUM(f), AVG(f) FROM p GROUP BY g
SELECT SUM(f), AVG(f) FROM p
