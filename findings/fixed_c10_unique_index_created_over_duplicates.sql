-- Reproduction through the library API (tools/api_runner) of the defect repaired by the "fix:" commit
-- "CREATE UNIQUE INDEX succeeded over rows that already repeat a key" (storage database/indexes/index_maintenance.rs, create_index).
-- Run: /verif/.cache/runner-target/debug/runner findings/fixed_c10_unique_index_created_over_duplicates.sql
-- BEFORE: both CREATE UNIQUE INDEX statements succeeded; UV then held two positions under key 10 (rows 1 and 4), IP two under the prefix "ab".
-- AFTER: both are rejected (the table holds duplicate key values) and leave no catalog entry behind: once the duplicate is gone the same CREATE succeeds
-- and enforces; a unique index over distinct keys (NULLs may repeat) is still created.
CREATE TABLE t (id INTEGER PRIMARY KEY, v INTEGER, name VARCHAR(20))
INSERT INTO t VALUES (1, 10, 'abc')
INSERT INTO t VALUES (2, 20, 'abd')
INSERT INTO t VALUES (3, NULL, 'xyz')
INSERT INTO t VALUES (4, 10, 'q')
INSERT INTO t VALUES (5, NULL, 'r')
CREATE UNIQUE INDEX uv ON t (v)
CREATE UNIQUE INDEX ip ON t (name(2))
CREATE UNIQUE INDEX un ON t (name)
CREATE UNIQUE INDEX uid_v ON t (id, v)
INSERT INTO t VALUES (6, 10, 'abc')
DELETE FROM t WHERE id = 4
CREATE UNIQUE INDEX uv ON t (v)
INSERT INTO t VALUES (7, 10, 'zzz')
