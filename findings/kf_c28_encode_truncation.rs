// KF-C28-length-truncation: reproduction against the real BackendMessage::encode.
// vibesql-server is a binary crate: paste into `mod tests` of crates/vibesql-server/src/protocol/messages.rs and run
//   RUSTC_WRAPPER= cargo test -p vibesql-server --offline protocol::messages::tests::verif_kf_c28
// Both tests FAIL on the current tree (they assert what the property demands).
#[test]
fn verif_kf_c28_field_count_is_not_truncated() {
    // a row with 40 000 NULL columns: the i16 field count wraps to -25536
    let mut buf = BytesMut::new();
    BackendMessage::DataRow { values: vec![None; 40_000] }.encode(&mut buf);
    let count = i16::from_be_bytes([buf[5], buf[6]]);
    assert_eq!(count as i64, 40_000, "field count in the frame must be the number of values");
}
#[test]
fn verif_kf_c28_cstring_with_nul_keeps_its_framing() {
    // a tag containing NUL: the frame's single C string is cut at the embedded NUL, the rest is garbage for the parser
    let mut buf = BytesMut::new();
    BackendMessage::CommandComplete { tag: "a\0b".to_string() }.encode(&mut buf);
    let body = &buf[5..];
    let first_nul = body.iter().position(|&b| b == 0).unwrap();
    assert_eq!(first_nul, body.len() - 1, "the only NUL of a C-string field must be its terminator");
}
