-- Reproduction through the library API (tools/api_runner) of the defects repaired by the "fix:" commit
-- "integer arithmetic returns an error instead of overflowing". Before the fix every statement below PANICS in a debug
-- build ("attempt to add/subtract/multiply/negate with overflow", "attempt to calculate the remainder with overflow")
-- and silently wraps in a release build (e.g. 9223372036854775807 + 1 = -9223372036854775808).
CREATE TABLE t (a BIGINT, b BIGINT)
INSERT INTO t VALUES (9223372036854775807, 1)
SELECT a + b FROM t
SELECT a * 2 FROM t
SELECT 0 - a - 2 FROM t
SELECT MOD(0 - a - 1, 0 - b) FROM t
SELECT -(0 - a - 1) FROM t
SELECT 9223372036854775807 + 1
