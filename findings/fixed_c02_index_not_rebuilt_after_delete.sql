-- Reproduction through the library API (tools/api_runner) of the defect repaired by the "fix:" commit 9f707f49
-- "user-defined indexes were never rebuilt after DELETE" (storage database/operations.rs, rebuild_indexes).
-- Run: /verif/.cache/runner-target/debug/runner findings/fixed_c02_index_not_rebuilt_after_delete.sql
-- DeleteExecutor calls database.rebuild_indexes(table) because delete_where shifts row positions. rebuild_indexes looked the table up by
-- the bare name in a map keyed by "public.<NAME>", never found it and returned without rebuilding.
-- BEFORE the fix: the first two SELECTs (index scan on i_a) returned no row; the third (same predicate, not indexable) returned [3, 30].
-- AFTER: [3, 30], [2, 20], [3, 30].
CREATE TABLE i (a INTEGER, b INTEGER)
CREATE INDEX i_a ON i (a)
INSERT INTO i VALUES (1, 10)
INSERT INTO i VALUES (2, 20)
INSERT INTO i VALUES (3, 30)
DELETE FROM i WHERE a = 1
SELECT a, b FROM i WHERE a = 3
SELECT a, b FROM i WHERE a = 2
SELECT a, b FROM i WHERE a + 0 = 3
