-- Reproduction through the library API (tools/api_runner) of the defect repaired by the "fix:" commit
-- "ALTER TABLE .. MODIFY / CHANGE COLUMN converted the stored values of a column and rebuilt no index".
-- Run: /verif/.cache/runner-target/debug/runner findings/fixed_c15_modify_column_left_indexes_with_old_values.sql
-- The rows hold Varchar("abc") after the conversion, the user-defined index on the column still held Character("abc") -> [0].
-- BEFORE: the SELECT after the ALTER returned NOTHING through the index (the same history without the index returns row 1).
-- AFTER: row 1. (ALTER TABLE has other, larger problems that are NOT repaired: the catalog keeps its own copy of the schema - DESIGN 9c.)
CREATE TABLE t (id INTEGER, k CHAR(3))
CREATE INDEX ik ON t (k)
INSERT INTO t VALUES (1, 'abc')
INSERT INTO t VALUES (2, 'xyz')
SELECT id FROM t WHERE k = 'abc'
ALTER TABLE t MODIFY COLUMN k VARCHAR(10)
SELECT id FROM t WHERE k = 'abc'
