-- Reproduction through the library API (tools/api_runner) of the defect repaired by the "fix:" commit 5f8dd171
-- "predicates and ORDER BY answered through a prefix index used the truncated keys as if they were the column"
-- (executor select/scan/index_scan/execution.rs, execute_index_scan).
-- Run: /verif/.cache/runner-target/debug/runner findings/fixed_c02_prefix_index.sql
-- BEFORE the fix, with CREATE INDEX p_a ON p (a(3)): WHERE a = 'abcdef' returned nothing (with and without ORDER BY), WHERE a = 'abc' returned
-- 'abcdef' and 'abcxyz', WHERE a > 'abc' returned only 'abd', WHERE a IN ('abcdef', 'ab') only 'ab', BETWEEN 'abcd' AND 'abcz' nothing.
-- AFTER: the same rows as without the index.
CREATE TABLE p (a VARCHAR(20), b INTEGER)
CREATE INDEX p_a ON p (a(3))
INSERT INTO p VALUES ('abcdef', 1)
INSERT INTO p VALUES ('abcxyz', 2)
INSERT INTO p VALUES ('abd', 3)
INSERT INTO p VALUES ('ab', 4)
SELECT a, b FROM p WHERE a = 'abcdef' ORDER BY a
SELECT a, b FROM p WHERE a = 'abcdef'
SELECT a, b FROM p WHERE a = 'abc' ORDER BY a
SELECT a, b FROM p WHERE a > 'abc' ORDER BY a
SELECT a, b FROM p WHERE a IN ('abcdef', 'ab') ORDER BY a
SELECT a, b FROM p WHERE a BETWEEN 'abcd' AND 'abcz' ORDER BY a
SELECT a, b FROM p ORDER BY a DESC
CREATE TABLE q (a INTEGER, b VARCHAR(20))
CREATE INDEX q_ab ON q (a, b(2))
INSERT INTO q VALUES (1, 'abz')
INSERT INTO q VALUES (1, 'aba')
INSERT INTO q VALUES (0, 'zzz')
SELECT a, b FROM q ORDER BY a, b
