-- Reproduction through the library API (tools/api_runner; directive --@RELOAD binary = Database::save_uncompressed + Database::load_binary)
-- of the defect repaired by the "fix:" commit "user-defined indexes were empty after loading a binary database file":
-- read_catalog creates the CREATE INDEX indexes while the tables are still empty, read_data then puts the rows into the tables with
-- Table::insert, which maintains the PRIMARY KEY / UNIQUE hash indexes only - after a reload every user-defined index was EMPTY,
-- so every query answered through it lost its rows.
-- Run: /verif/.cache/runner-target/debug/runner findings/fixed_c15_indexes_empty_after_binary_reload.sql
-- BEFORE: the two SELECTs after the reload returned NOTHING (the same SELECTs before the reload return rows 2,3 and 1,2,3).
-- AFTER: the same rows before and after the reload.
CREATE TABLE t (id INTEGER PRIMARY KEY, a INTEGER)
INSERT INTO t VALUES (1, 10)
INSERT INTO t VALUES (2, 20)
INSERT INTO t VALUES (3, 20)
CREATE INDEX ia ON t (a)
SELECT id FROM t WHERE a = 20 ORDER BY id
SELECT id FROM t WHERE a >= 10 ORDER BY a, id
--@RELOAD binary
SELECT id FROM t WHERE a = 20 ORDER BY id
SELECT id FROM t WHERE a >= 10 ORDER BY a, id
