-- Reproduction through the library API (tools/api_runner) of the defect repaired by the "fix:" commit 1ce19e95
-- "REPLACE, ON DUPLICATE KEY UPDATE and FK cascades were not undone by ROLLBACK TO SAVEPOINT" (insert/replace.rs, insert/duplicate_key_update.rs,
-- delete/integrity.rs, update/foreign_keys.rs). Run: /verif/.cache/runner-target/debug/runner findings/fixed_c14_cascade_replace_not_undone.sql
-- BEFORE the fix, after the ROLLBACK TO SAVEPOINT statements: c was EMPTY (cascade delete kept), u was EMPTY (REPLACE: insert undone, delete kept),
-- SET NULL / UPDATE CASCADE / ON DUPLICATE KEY UPDATE kept their effects. AFTER: every SELECT following a ROLLBACK TO shows the state at the savepoint:
-- [1,100]; [10,1]; [1,100]; then [1,100] [2,200]; [10,1] [20,2]; then [1,100].
CREATE TABLE p (id INTEGER PRIMARY KEY, v INTEGER)
CREATE TABLE c (id INTEGER, pid INTEGER, FOREIGN KEY (pid) REFERENCES p (id) ON DELETE CASCADE)
INSERT INTO p VALUES (1, 100)
INSERT INTO c VALUES (10, 1)
BEGIN
SAVEPOINT s
DELETE FROM p WHERE id = 1
ROLLBACK TO SAVEPOINT s
SELECT id, v FROM p
SELECT id, pid FROM c
COMMIT
CREATE TABLE u (id INTEGER PRIMARY KEY, v INTEGER)
INSERT INTO u VALUES (1, 100)
BEGIN
SAVEPOINT s2
REPLACE INTO u VALUES (1, 200)
ROLLBACK TO SAVEPOINT s2
SELECT id, v FROM u
COMMIT
CREATE TABLE p2 (id INTEGER PRIMARY KEY, v INTEGER)
CREATE TABLE c2 (id INTEGER, pid INTEGER, FOREIGN KEY (pid) REFERENCES p2 (id) ON DELETE SET NULL ON UPDATE CASCADE)
INSERT INTO p2 VALUES (1, 100)
INSERT INTO p2 VALUES (2, 200)
INSERT INTO c2 VALUES (10, 1)
INSERT INTO c2 VALUES (20, 2)
BEGIN
SAVEPOINT s3
DELETE FROM p2 WHERE id = 1
UPDATE p2 SET id = 5 WHERE id = 2
SELECT id, pid FROM c2 ORDER BY id
ROLLBACK TO SAVEPOINT s3
SELECT id, v FROM p2 ORDER BY id
SELECT id, pid FROM c2 ORDER BY id
COMMIT
CREATE TABLE u2 (id INTEGER PRIMARY KEY, v INTEGER)
INSERT INTO u2 VALUES (1, 100)
BEGIN
SAVEPOINT s4
INSERT INTO u2 VALUES (1, 5) ON DUPLICATE KEY UPDATE v = v + 1
SELECT id, v FROM u2
ROLLBACK TO SAVEPOINT s4
SELECT id, v FROM u2
COMMIT
