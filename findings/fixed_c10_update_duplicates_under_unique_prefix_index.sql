-- Reproduction through the library API (tools/api_runner) of the defect repaired by the "fix:" commit
-- "UPDATE accepted a duplicate under a UNIQUE prefix index" (executor update/constraints.rs, validate_unique_indexes).
-- Run: /verif/.cache/runner-target/debug/runner findings/fixed_c10_update_duplicates_under_unique_prefix_index.sql
-- A UNIQUE index on name(3) holds the first 3 characters. INSERT probes it with the truncated value (storage check), UPDATE probed it with the
-- full value - which is never in the index - so the per-row uniqueness check of UPDATE never fired for a prefix index.
-- BEFORE: the UPDATE was accepted; the UNIQUE index UN then held "abc" -> two rows. AFTER: the UPDATE is rejected like the INSERT before it;
-- an UPDATE that keeps the row's own prefix (id 1: 'abcdef' -> 'abcxyz') is still accepted.
CREATE TABLE t (id INTEGER PRIMARY KEY, name VARCHAR(20))
CREATE UNIQUE INDEX un ON t (name(3))
INSERT INTO t VALUES (1, 'abcdef')
INSERT INTO t VALUES (2, 'xyzuvw')
INSERT INTO t VALUES (3, 'abcZZZ')
UPDATE t SET name = 'abcQQQ' WHERE id = 2
UPDATE t SET name = 'abcxyz' WHERE id = 1
SELECT id, name FROM t ORDER BY id
