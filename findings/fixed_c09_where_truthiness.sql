-- Reproduction through the library API (tools/api_runner) of the defect repaired by the "fix:" commit
-- "UPDATE/DELETE decide WHERE with the same truthiness as SELECT".
-- SELECT keeps a row when the WHERE value is TRUE or a non-zero number (documented SQLLogicTest compatibility) and raises an error for other
-- non-boolean values; before the fix UPDATE and DELETE kept only Boolean(true): "0 rows" for the same predicate that SELECT matches.
CREATE TABLE w (id INTEGER, a INTEGER)
INSERT INTO w VALUES (1, 1)
INSERT INTO w VALUES (2, 0)
INSERT INTO w VALUES (3, NULL)
SELECT id FROM w WHERE a
UPDATE w SET id = id + 10 WHERE a
SELECT id FROM w
DELETE FROM w WHERE a
SELECT id FROM w
