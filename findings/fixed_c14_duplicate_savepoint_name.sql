-- Reproduction through the library API (tools/api_runner) of the defect repaired by the "fix:" commit
-- "ROLLBACK TO / RELEASE SAVEPOINT resolve a duplicated name to the most recent savepoint".
-- Before the fix ROLLBACK TO SAVEPOINT x went back to the FIRST x: the final SELECT returned [1]; expected (SQL:1999, PostgreSQL): [1] [2].
CREATE TABLE q (a INTEGER)
BEGIN
INSERT INTO q VALUES (1)
SAVEPOINT x
INSERT INTO q VALUES (2)
SAVEPOINT x
INSERT INTO q VALUES (3)
ROLLBACK TO SAVEPOINT x
SELECT a FROM q
COMMIT
