-- Reproduction through the library API (tools/api_runner) of the defect repaired by the "fix:" commit ff7104d3
-- "PRIMARY KEY / UNIQUE were checked on values before the table normalized them" (executor insert/execution.rs, update/mod.rs; storage Table::normalize_row).
-- Run: /verif/.cache/runner-target/debug/runner findings/fixed_c10_duplicates_after_truncation.sql
-- BEFORE the fix: every statement below succeeded and the tables held two rows 'abc' under CREATE UNIQUE INDEX, a UNIQUE column and a PRIMARY KEY.
-- AFTER: the second INSERT and the UPDATE are rejected with a constraint violation.
CREATE TABLE u (a VARCHAR(3), b INTEGER)
CREATE UNIQUE INDEX u_a ON u (a)
INSERT INTO u VALUES ('abc', 1)
INSERT INTO u VALUES ('abcdef', 2)
SELECT a, b FROM u
CREATE TABLE u2 (a VARCHAR(3) UNIQUE, b INTEGER)
INSERT INTO u2 VALUES ('abc', 1)
INSERT INTO u2 VALUES ('abcdef', 2)
SELECT a, b FROM u2
CREATE TABLE u3 (a VARCHAR(3) PRIMARY KEY, b INTEGER)
INSERT INTO u3 VALUES ('abc', 1)
INSERT INTO u3 VALUES ('xyz', 2)
INSERT INTO u3 VALUES ('abcdef', 3)
UPDATE u3 SET a = 'abcxyz' WHERE b = 2
INSERT INTO u3 VALUES ('qrs', 4), ('qrstuv', 5)
SELECT a, b FROM u3
