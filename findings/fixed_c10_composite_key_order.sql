-- Reproduction through the library API (tools/api_runner) of the defect repaired by the "fix:" commit 703e591c
-- "INSERT built composite keys in table column order, not in constraint order" (executor insert/row_validator.rs).
-- Run: /verif/.cache/runner-target/debug/runner findings/fixed_c10_composite_key_order.sql
-- BEFORE the fix: the second INSERT (1, 2) was ACCEPTED (duplicate primary key), INSERT (2, 1) - a different key - was REJECTED as a duplicate;
-- the same for UNIQUE (c, a). AFTER: the duplicates are rejected, (2, 1) is accepted.
CREATE TABLE t (a INTEGER, b INTEGER, PRIMARY KEY (b, a))
INSERT INTO t VALUES (1, 2)
INSERT INTO t VALUES (1, 2)
SELECT a, b FROM t
INSERT INTO t VALUES (2, 1)
SELECT COUNT(*) FROM t
CREATE TABLE u (a INTEGER, b INTEGER, c INTEGER, UNIQUE (c, a))
INSERT INTO u VALUES (1, 0, 3)
INSERT INTO u VALUES (1, 9, 3)
SELECT a, b, c FROM u
