-- Reproduction through the library API (tools/api_runner) of the defect repaired by the "fix:" commit c97ed663
-- "ORDER BY after aggregation put NULLs first for DESC and ignored ORDER BY <position>" (executor select/executor/aggregation/evaluation/mod.rs).
-- Run: /verif/.cache/runner-target/debug/runner findings/fixed_c08_aggregate_order_by.sql
-- BEFORE the fix: `GROUP BY k ORDER BY k DESC` returned the NULL group FIRST ([Null,1] [5,1] [3,1] [1,1]) while `SELECT DISTINCT k .. ORDER BY k DESC` puts it last;
-- `ORDER BY 2 DESC, 1` returned the groups in hash order. AFTER: NULLs last; positions refer to the result columns (same as ORDER BY c DESC, k).
CREATE TABLE u (id INTEGER, k INTEGER)
INSERT INTO u VALUES (1, 5)
INSERT INTO u VALUES (2, 1)
INSERT INTO u VALUES (3, NULL)
INSERT INTO u VALUES (4, 3)
INSERT INTO u VALUES (5, 3)
SELECT k, COUNT(*) FROM u GROUP BY k ORDER BY k DESC
SELECT DISTINCT k FROM u ORDER BY k DESC
SELECT k, COUNT(*) AS c FROM u GROUP BY k ORDER BY 2 DESC, 1
SELECT k, COUNT(*) AS c FROM u GROUP BY k ORDER BY c DESC, k
