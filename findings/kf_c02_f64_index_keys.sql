-- Reproduction through the library API (tools/api_runner) of the RECORDED finding KF-C02-f64-index-keys (not repaired).
-- Run: /verif/.cache/runner-target/debug/runner findings/kf_c02_f64_index_keys.sql
-- Index keys are normalized to f64 (normalize_for_comparison); integers above 2^53 that differ can share a key. Without the index every query below is
-- right; with it: ORDER BY n returns 9007199254740993 before 9007199254740992, `n = 9007199254740993` returns BOTH big rows (the WHERE re-check is
-- skipped for an equality on the indexed column), `n > 9007199254740992` returns nothing.
CREATE TABLE big (id INTEGER, n BIGINT)
INSERT INTO big VALUES (1, 9007199254740993)
INSERT INTO big VALUES (2, 9007199254740992)
INSERT INTO big VALUES (3, 5)
SELECT id, n FROM big ORDER BY n
SELECT id, n FROM big WHERE n = 9007199254740993 ORDER BY n
SELECT id, n FROM big WHERE n > 9007199254740992 ORDER BY n
CREATE INDEX idx_big_n ON big (n)
SELECT id, n FROM big ORDER BY n
SELECT id, n FROM big WHERE n = 9007199254740993 ORDER BY n
SELECT id, n FROM big WHERE n > 9007199254740992 ORDER BY n
