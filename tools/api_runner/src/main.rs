use vibesql_ast::Statement;
use vibesql_storage::Database;

fn run(db: &mut Database, sql: &str) {
    let stmt = match vibesql_parser::Parser::parse_sql(sql) { Ok(s) => s, Err(e) => { println!("  PARSE ERROR {:?}", e); return; } };
    let r: Result<String, String> = (|| match stmt {
        Statement::Select(s) => {
            let ex = vibesql_executor::SelectExecutor::new(db);
            let rows = ex.execute(&s).map_err(|e| format!("{:?}", e))?;
            let mut out = String::new();
            for r in rows { out.push_str(&format!("{:?} ", r.values)); }
            Ok(out)
        }
        Statement::Insert(s) => vibesql_executor::InsertExecutor::execute(db, &s).map(|n| format!("{} rows", n)).map_err(|e| format!("{:?}", e)),
        Statement::Update(s) => vibesql_executor::UpdateExecutor::execute(&s, db).map(|n| format!("{} rows", n)).map_err(|e| format!("{:?}", e)),
        Statement::Delete(s) => vibesql_executor::DeleteExecutor::execute(&s, db).map(|n| format!("{} rows", n)).map_err(|e| format!("{:?}", e)),
        Statement::CreateTable(s) => vibesql_executor::CreateTableExecutor::execute(&s, db).map(|m| format!("{}", m)).map_err(|e| format!("{:?}", e)),
        Statement::CreateIndex(s) => vibesql_executor::IndexExecutor::execute(&s, db).map(|m| format!("{}", m)).map_err(|e| format!("{:?}", e)),
        Statement::DropTable(s) => vibesql_executor::DropTableExecutor::execute(&s, db).map(|m| format!("{}", m)).map_err(|e| format!("{:?}", e)),
        Statement::DropIndex(s) => vibesql_executor::DropIndexExecutor::execute(&s, db).map(|m| format!("{}", m)).map_err(|e| format!("{:?}", e)),
        Statement::CreateTrigger(s) => vibesql_executor::TriggerExecutor::create_trigger(db, &s).map_err(|e| format!("{:?}", e)),
        Statement::TruncateTable(s) => vibesql_executor::TruncateTableExecutor::execute(&s, db).map(|n| format!("{} rows", n)).map_err(|e| format!("{:?}", e)),
        Statement::AlterTable(s) => vibesql_executor::AlterTableExecutor::execute(&s, db).map(|m| format!("{}", m)).map_err(|e| format!("{:?}", e)),
        Statement::BeginTransaction(_) => db.begin_transaction().map(|_| "BEGIN".to_string()).map_err(|e| format!("{:?}", e)),
        Statement::Commit(_) => db.commit_transaction().map(|_| "COMMIT".to_string()).map_err(|e| format!("{:?}", e)),
        Statement::Rollback(_) => db.rollback_transaction().map(|_| "ROLLBACK".to_string()).map_err(|e| format!("{:?}", e)),
        Statement::Savepoint(s) => db.create_savepoint(s.name.clone()).map(|_| "SAVEPOINT".to_string()).map_err(|e| format!("{:?}", e)),
        Statement::RollbackToSavepoint(s) => db.rollback_to_savepoint(s.name.clone()).map(|_| "ROLLBACK TO".to_string()).map_err(|e| format!("{:?}", e)),
        Statement::ReleaseSavepoint(s) => db.release_savepoint(s.name.clone()).map(|_| "RELEASE".to_string()).map_err(|e| format!("{:?}", e)),
        other => Err(format!("unsupported in runner: {:?}", std::mem::discriminant(&other))),
    })();
    match r { Ok(m) => println!("  -> {}", m), Err(e) => println!("  ERROR {}", e) }
}

fn main() {
    let path = std::env::args().nth(1).unwrap();
    let text = std::fs::read_to_string(path).unwrap();
    let mut db = Database::new();
    for line in text.lines() {
        let l = line.trim();
        if l.is_empty() { continue; }
        // directives: `--@RELOAD binary|json` saves the database to a scratch file and loads it back
        if l.starts_with("--@RELOAD") {
            println!("{}", l);
            let json = l.contains("json");
            let f = std::env::temp_dir().join(format!("runner_reload_{}.{}", std::process::id(), if json { "json" } else { "vbsql" }));
            let r = if json { db.save_json(&f).and_then(|_| Database::load_json(&f)) } else { db.save_uncompressed(&f).and_then(|_| Database::load_binary(&f)) };
            let _ = std::fs::remove_file(&f);
            match r { Ok(d) => { db = d; println!("  -> reloaded"); } Err(e) => println!("  ERROR {:?}", e) }
            continue;
        }
        if l.starts_with("--") { println!("{}", l); continue; }
        println!("{}", l);
        let res = std::panic::catch_unwind(std::panic::AssertUnwindSafe(|| run(&mut db, l.trim_end_matches(';'))));
        if res.is_err() { println!("  PANIC"); }
    }
}
